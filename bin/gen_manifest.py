#!/usr/bin/env python3
"""Regenerates /verif/MANIFEST.json from the tables below (kept as code so that the claimed list,
the not-applicable list and the hook commits stay consistent)."""
import json, os, subprocess

VERIF = os.path.dirname(os.path.dirname(os.path.abspath(__file__)))

TECH = "bounded model checking of the real functions (Kani harnesses compiled from /repo, CBMC + SAT solver verdict over symbolic inputs)"
NOTE_COMMON = (" Trusted base: Kani 0.68 / CBMC 6.11 / cadical; sequential memory model; stub std::panic::catch_unwind -> Ok(f()) "
               "(panic=abort); dev-profile semantics; hand-written Configuration impls stand in for macro output. "
               "Harnesses reach private items by name: a rename makes the check exit 2 (inconclusive), never a VIOLATION.")

CLAIMED = {
 "C01": ("other", "Partial: decides the local red-green kernel contract (soundness direction) for all symbolic revisions/durabilities within bounds: "
         "shallow and hot verification, backdating guard, stamp recording, input-field change test. The end-to-end sentence (programs x histories through fetch/execute) is outside reach of the engine and is not claimed.", "5/C01"),
 "C02": ("other", "Durability bookkeeping decided for every runtime state satisfying the revision invariant (one inductive step) and for all write histories of <= 3 revisions; "
         "the durability shortcut of shallow verification is sound over those histories; never-change writes panic in every state; edges are discarded only for never-change fully tracked memos.", "5/C02"),
 "C03": ("other", "Partial: completeness directions of the same kernels (no spurious re-validation failures, backdating of equal values, per-field revisions). Does not decide that bodies are not re-executed end to end.", "5/C03"),
 "C04": ("other", "Partial: a memo that recorded an untracked read is LOW/now, never shallow-verifiable in a later revision, never evictable, and deep-verifies as changed.", "5/C04"),
 "C05": ("other", "Partial (transparency kernels only): capacity 0 disables eviction; only values computed from fully tracked dependencies are evictable; evicting discards the value but keeps the memo's dependency information; the fetch fast path never hands out an evicted value. NOT decided: the capacity bound and the LRU order (hashlink LinkedHashSet gave no verdict within 45 min) and end-to-end equality with unbounded caching.", "5/C05 and 11"),
 "C06": ("other", "Partial: identity equality uses ingredient, hash and disambiguator; re-creating a page-backed struct with equal identity fields keeps its id and moves the tracked field revision only when the value differs or durability decreased; a struct that is no longer created is write-locked, its memos cleared and its slot recycled under a new generation; deleting a struct locked in the current revision panics. NOT decided: DisambiguatorMap / IdentityMap (hashbrown), enumeration.", "5/C06 and 11"),
 "C07": ("other", "Partial: ids are exactly (slot, generation) pairs with an injective 64-bit encoding; every reuse path (interned LRU scan, tracked-struct free list, identity-field change) hands out generation+1 and never wraps; a dependency on an older interned generation is reported changed; memo tables are empty after the clear every reuse path performs; database keys distinguish generations.", "5/C07"),
 "C09": ("other", "The retention queue is decided against a reference model (stale iff REVS distinct later revisions were recorded and the value is older than the oldest of them) for REVS 1..4 and histories of <= 6 recorded revisions; reusability iff LOW durability and collection enabled; the LRU tail scan only offers stale, not-currently-used slots; revalidation keeps a value alive. The intern_id fast path (hash lookup) is outside the claim.", "5/C09"),
 "C15": ("model_checking", "Partial: the iteration counter kernel is decided for all 2^16 stamps: it cannot pass 200 nor touch the cancellation byte; 201st increment refused. Recovery after the panic is not claimed.", "5/C15"),
 "C20": ("other", "Partial: cancellation-epoch stamping only: stamp order, epoch counter never wraps, provisional memos of another epoch rejected, pending-write flag makes the cancellation check unwind. Blocking on clones/threads is not claimed.", "5/C20"),
 "C21": ("other", "Partial: CancellationToken state machine for all op sequences <= 4, nested disable guards restore state, cancelled-and-enabled makes the next check unwind. Other handles / waiter retry not claimed.", "5/C21"),
 "C23": ("other", "Partial: CBMC's pointer checks (null/invalid/out-of-bounds/dead/deallocated dereference) are discharged on the raw-pointer kernels: OriginAndExtra/SliceWithHeader alloc, decode and drop for 0..3 edges in all layouts, page allocation at every fill level incl. full, typed memo-entry table insert/get/take/reset and its type check, interned LRU entry pointer round trip. Histories, references returned by fetch, database drop and data races are not decided.", "5/C23"),
 "C25": ("model_checking", "Stored dependency edges round-trip exactly for every value of every edge field, for N <= 2 edges (quick) / N <= 3 (thorough), both derived kinds, with and without extra data; inputs()/outputs() partition; clear_edges keeps extra. Persisted form (serde) is outside the claim.", "5/C25"),
}

NOT_APPLICABLE = {
 "C19": "failed the admission rule (DESIGN 3-2, 11): the protocol state is three FxHashMaps; even one add_edge + depends_on on the real DependencyGraph with concrete keys returned no verdict from CBMC within 45 min; not replaced by a hand-written model because this task studies checking the real code",
 "C08": "canonicality across threads is a schedule property (Kani has no threads) and its sequential core is a hashbrown lookup under a symbolic hash, which CBMC did not decide within 10 min even for concrete keys",
 "C10": "specify_and_record is reachable only through SyncTable::try_claim -> std::thread::current(), unsupported and unstubbable in Kani 0.68",
 "C11": "accumulated_by starts with fetch (same thread::current blocker) and quantifies over programs",
 "C12": "fixpoint semantics lives in the execute_maybe_iterate <-> fetch recursion over user functions; not encodable (thread::current, symbolic programs)",
 "C13": "same as C12",
 "C14": "needs unwinding (Kani is panic=abort) and try_claim",
 "C16": "quantifies over thread interleavings; Kani does not model concurrency",
 "C17": "quantifies over thread interleavings; Kani does not model concurrency",
 "C18": "quantifies over thread interleavings; Kani does not model concurrency",
 "C22": "every clause is about state after unwinding through drop guards; Kani compiles with panic=abort and stops at the panic",
 "C24": "quantifier is schedules only",
 "C26": "needs the persistence feature, serde's data model and serde_json text (unbounded parsing loops) around a whole database",
}

# final wording of the claims (overrides the text in CLAIMED above)
TEXT = {
 "C01": "Partial: decides the local red-green kernel contract (soundness direction) for all symbolic revisions/durabilities within bounds: stamp recording of the executing query and its completion, shallow and hot-path verification, backdating guard and entry point, interned-read stamp, deep-verification arm dispatch (quick); complete memo verification over real dyn-dispatched input-field ingredients, the fetch fast path, input and tracked-struct field change tests (thorough). The end-to-end sentence (programs x histories through fetch/execute) is outside reach of the engine and is not claimed.",
 "C09": "Soundness direction of the retention rule decided against a reference model for REVS 1..4 and histories of <= 6 recorded revisions: a value is judged stale only if REVS distinct later revisions were recorded and it is older than the oldest of them; reclaimable only if interned under LOW durability and collection is enabled; the LRU tail scan offers only stale slots not used in the current revision, under generation+1; revalidation keeps a value alive. (That old values ARE collected is not demanded by the property and not asserted.) The intern_id paths behind the hash lookup are outside the claim.",
 "C15": "Partial: the iteration counter kernel is decided for all 2^16 stamps: a successful increment stays within 200, keeps the cancellation byte and compares greater; from the initial stamp at most 200 increments are admitted. Only the upper bound is asserted (a lower limit also satisfies the property). Recovery after the panic is not claimed.",
 "C21": "Partial: CancellationToken state machine for all op sequences <= 4; nested disable guards restore the outer state and never lose a cancel(); cancelled-and-enabled makes the next check unwind; the token is reset exactly when the outermost attached scope returns (public attach API over a literal Storage). Other handles / waiter retry not claimed.",
 "C02": "Durability bookkeeping decided for every runtime state satisfying the revision invariant (one inductive step) and for all write histories of <= 3 revisions; the setter reports the field's old durability and installs the new one; the durability shortcut of shallow and hot-path verification is sound over those histories; never-change writes (runtime, setter) panic in every state; edges are discarded only for never-change fully tracked memos. The public synthetic_write path through Storage::cancel_others is not decided (probe).",
}

# properties planned but not yet admitted (kept not-applicable until a check exists and passes)
PENDING = {

}


def hook_commits():
    try:
        out = subprocess.check_output(["git", "-C", "/repo", "log", "--format=%H %s"]).decode()
        return [l.split()[0] for l in out.splitlines() if " verif hook:" in " " + l]
    except Exception:
        return []


def main():
    checks = []
    for pid in sorted(CLAIMED):
        cat, text, ref = CLAIMED[pid]
        text = TEXT.get(pid, text)
        checks.append({
            "property_id": pid,
            "quick_cmd": "bin/verif %s --tier quick" % pid,
            "thorough_cmd": "bin/verif %s --tier thorough" % pid,
            "evidence_file": "/verif/evidence/%s.json" % pid,
            "replay_cmd_template": "bin/verif --replay {path}",
            "engine": "kani-0.68/cbmc-6.11",
            "level_claimed": {"category": cat, "text": text, "design_ref": "DESIGN.md section " + ref},
            "level_note": "Bounds, functions encoded and stubs are listed per harness in the evidence file." + NOTE_COMMON,
            "technique": TECH,
        })
    na = [{"property_id": p, "reason": r} for p, r in sorted({**NOT_APPLICABLE, **{k: v for k, v in PENDING.items() if k not in CLAIMED}}.items())]
    m = {
        "version": 1,
        "setup_cmd": "bin/verif --setup",
        "hooks": {
            "guard": "cfg(kani)",
            "enable": "cargo kani sets cfg(kani); checks run it in /repo with SALSA_VERIF_HARNESS_DIR=/verif/harness (harness text lives in /verif/harness and is include!d by the cfg(kani) hook modules)",
            "baseline_off_cmd": "cd /repo && cargo nextest run --workspace --no-fail-fast --test-threads 8 --offline || cargo test --workspace --no-fail-fast --offline",
            "source_commits": hook_commits(),
            "add_only": True,
        },
        "engines": [{"name": "kani-0.68/cbmc-6.11", "path": "/verif/bin/verif", "serves_properties": sorted(CLAIMED),
                     "kind_free_text": "bounded model checker for Rust (MIR -> goto-program -> SAT)"}],
        "checks": checks,
        "not_applicable": na,
        "notes": "See DESIGN.md. Exit 2 of a check means inconclusive (resource cap, unwinding bound, harness no longer compiles); it never prints VIOLATION.",
    }
    json.dump(m, open(os.path.join(VERIF, "MANIFEST.json"), "w"), indent=1)
    print("wrote MANIFEST.json: %d checks, %d not applicable" % (len(checks), len(na)))


if __name__ == "__main__":
    main()
