// Kani harnesses for /repo/src/input.rs (compiled as `crate::input::verif`).
// Properties: C02-O2/O6 (setter durability bookkeeping), C01-O3 / C03-O3 (per-field change test).

use crate::verif_prelude::*;
use crate::input::singleton::NotSingleton;

#[derive(Copy, Clone)]
pub(crate) struct VInS(Id);

impl FromId for VInS {
    fn from_id(id: Id) -> Self {
        VInS(id)
    }
}

impl AsId for VInS {
    fn as_id(&self) -> Id {
        self.0
    }
}

/// A hand-written input with two `u32` fields (stands in for `#[salsa::input]` output).
pub(crate) struct VIn;

impl Configuration for VIn {
    const DEBUG_NAME: &'static str = "VIn";
    const FIELD_DEBUG_NAMES: &'static [&'static str] = &["a", "b"];
    const LOCATION: crate::ingredient::Location = crate::ingredient::Location { file: "", line: 0 };
    const PERSIST: bool = false;
    type Singleton = NotSingleton;
    type Struct = VInS;
    type Fields = (u32, u32);
    type Revisions = [Revision; 2];
    type Durabilities = [Durability; 2];

    fn serialize<S>(_: &Self::Fields, _: S) -> Result<S::Ok, S::Error>
    where
        S: plumbing::serde::Serializer,
    {
        unimplemented!()
    }

    fn deserialize<'de, D>(_: D) -> Result<Self::Fields, D::Error>
    where
        D: plumbing::serde::Deserializer<'de>,
    {
        unimplemented!()
    }
}

struct World {
    rt: Runtime,
    ing: IngredientImpl<VIn>,
    id: Id,
    revs: [usize; 3],
}

/// A bare `Runtime` in an arbitrary INV state whose table holds one page of `Value<VIn>` with one
/// allocated input: fields (1, 2), field revisions `r0`/`r1`, durabilities `d0`/`d1`.
fn world(d0: Durability, d1: Durability, r0: usize, r1: usize) -> World {
    let (rt, revs) = crate::runtime::verif::any_runtime();
    let ing = IngredientImpl::<VIn>::new(IngredientIndex::new(0));
    let page = rt
        .table()
        .push_page::<Value<VIn>>(IngredientIndex::new(0), ing.memo_table_types.clone());
    // SAFETY: single-threaded; we are the unique writer of the page.
    let id = match unsafe {
        rt.table().page::<Value<VIn>>(page).allocate(page, |_| Value::<VIn> {
            fields: (1, 2),
            revisions: [Revision::from(r0), Revision::from(r1)],
            durabilities: [d0, d1],
            // SAFETY: the memo table is only accessed through this ingredient's types.
            memos: unsafe { MemoTable::new(&ing.memo_table_types) },
        })
    } {
        Ok((id, _)) => id,
        Err(_) => panic!("fresh page is full"),
    };
    World { rt, ing, id, revs }
}

fn any_field_rev(now: usize) -> usize {
    let r: usize = kani::any();
    kani::assume(1 <= r && r <= now);
    r
}

/// A `Zalsa` around the world's runtime (for the entry points that take a `&Zalsa`).
fn into_zalsa(w: World) -> (Zalsa, IngredientImpl<VIn>, Id) {
    let mut z = crate::zalsa::verif::minimal_zalsa();
    std::mem::forget(std::mem::replace(z.runtime_mut(), w.rt));
    (z, w.ing, w.id)
}

// @verif prop=C02,C01,C03 obl=O2 tier=thorough bounds="arbitrary INV runtime state (< 2^40) followed by one new revision; one page-backed input with 2 fields; symbolic old durability (LOW/MEDIUM/HIGH), other field's durability (any), optional new durability (any of 4), symbolic new value; previous field revisions R1"
// @+ encodes="input::IngredientImpl::<VIn>::set_field, IngredientImpl::data_raw, Table::get_raw, Table::get, Table::push_page, PageView::allocate, Page::new, split_id, make_id, Runtime::report_tracked_write, Runtime::new_revision, Runtime::last_changed_revision"
/// C02-O2: the setter reports the field's *old* durability to the runtime (so everything <= old is marked changed now),
/// installs the requested durability (or keeps the old one), stamps the field with the current revision and
/// leaves the other field's value, revision and durability alone; the runtime invariant is preserved.
#[kani::proof]
#[kani::unwind(4)]
#[kani::stub(real_catch_unwind, stub_catch_unwind)]
fn c02_o2_set_field() {
    let old_d = any_durability3();
    let other_d = any_durability();
    let mut w = world(old_d, other_d, 1, 1);
    let before_m = w.rt.last_changed_revision(Durability::MEDIUM);
    let before_h = w.rt.last_changed_revision(Durability::HIGH);
    let now = w.rt.new_revision();
    let new_d: Option<Durability> = if kani::any() { Some(any_durability()) } else { None };
    let val: u32 = kani::any();
    let old = w.ing.set_field(&mut w.rt, VInS(w.id), 0, new_d, |f| std::mem::replace(&mut f.0, val));
    assert!(old == 1);
    let value: &Value<VIn> = w.rt.table().get(w.id);
    assert!(value.fields == (val, 2), "C01: setter wrote the wrong field or value");
    assert!(value.revisions[0] == now, "C01: written field not stamped with the current revision");
    assert!(value.revisions[1] == Revision::start(), "C03: setter touched the other field's revision");
    assert!(value.durabilities[0] == new_d.unwrap_or(old_d), "C02: requested durability not installed / old one not kept");
    assert!(value.durabilities[1] == other_d, "C02: setter touched the other field's durability");
    // every durability level <= the OLD durability is marked changed in this revision
    let od = dur_index(old_d);
    assert!(w.rt.last_changed_revision(Durability::LOW) == now);
    if od >= 1 {
        assert!(w.rt.last_changed_revision(Durability::MEDIUM) == now, "C02: write to a MEDIUM+ field did not invalidate MEDIUM memos");
    } else {
        assert!(w.rt.last_changed_revision(Durability::MEDIUM) == before_m, "C03: writing a LOW field invalidated MEDIUM memos");
    }
    if od >= 2 {
        assert!(w.rt.last_changed_revision(Durability::HIGH) == now, "C02: write to a HIGH field did not invalidate HIGH memos");
    } else {
        assert!(w.rt.last_changed_revision(Durability::HIGH) == before_h, "C03: writing a field below HIGH invalidated HIGH memos");
    }
    assert!(crate::runtime::verif::inv(&w.rt), "C02: runtime revision invariant broken by the setter");
    kani::cover!(od == 2 && new_d == Some(Durability::LOW));
    kani::cover!(od == 0 && new_d == Some(Durability::NEVER_CHANGE));
    kani::cover!(new_d.is_none() && od == 1);
    std::mem::forget(w);
}

// @verif prop=C01,C03 obl=O3 tier=thorough bounds="as c02_o2_set_field; queried revision symbolic in [1, now]"
// @+ encodes="input::IngredientImpl::<VIn>::set_field, input_field::FieldIngredientImpl::<VIn>::maybe_changed_after, IngredientImpl::data, Table::get, VerifyResult::changed_if"
/// C01-O3/C03-O3: after writing field 0 in revision R, the change test of field 0 answers Changed for every
/// revision < R (and Unchanged for R); the change test of field 1 answers exactly as before the write.
#[kani::proof]
#[kani::unwind(4)]
#[kani::stub(real_catch_unwind, stub_catch_unwind)]
fn c01_o3_field_change_test() {
    let old_d = any_durability3();
    let mut w = world(old_d, any_durability(), 1, 1);
    let r1 = any_field_rev(w.revs[0]);
    {
        // SAFETY: single-threaded.
        let v: &mut Value<VIn> = unsafe { &mut *w.rt.table().get_raw::<Value<VIn>>(w.id) };
        v.revisions[1] = Revision::from(r1);
    }
    let now = w.rt.new_revision();
    let _ = w.ing.set_field(&mut w.rt, VInS(w.id), 0, None, |f| f.0 = kani::any());
    let (zalsa, ing, id) = into_zalsa(w);
    let f0 = FieldIngredientImpl::<VIn>::new(IngredientIndex::new(0), 0);
    let f1 = FieldIngredientImpl::<VIn>::new(IngredientIndex::new(0), 1);
    let q: usize = kani::any();
    kani::assume(1 <= q && q <= now.as_usize());
    // SAFETY: the field ingredients ignore their database argument.
    let c0 = unsafe { f0.maybe_changed_after(&zalsa, dangling_raw_db(), id, Revision::from(q)) };
    let c1 = unsafe { f1.maybe_changed_after(&zalsa, dangling_raw_db(), id, Revision::from(q)) };
    if q < now.as_usize() {
        assert!(!c0.is_unchanged(), "C01: a written input field is reported unchanged to a reader verified before the write");
    } else {
        assert!(c0.is_unchanged(), "C03: a field is reported changed after the revision it was written in");
    }
    assert!(c1.is_unchanged() == (r1 <= q), "C03/C01: writing one field altered the change test of another field");
    kani::cover!(q < now.as_usize() && r1 <= q);
    kani::cover!(q == now.as_usize());
    std::mem::forget(ing);
    std::mem::forget(zalsa);
}

// @verif prop=C02 obl=O6 tier=quick bounds="field durability NEVER_CHANGE; every requested durability (4 + None) and value; arbitrary INV runtime state" covers=0/1
// @+ encodes="input::IngredientImpl::<VIn>::set_field"
/// C02-O6: writing a field whose durability is NEVER_CHANGE panics for every requested durability and value.
#[kani::proof]
#[kani::unwind(4)]
#[kani::should_panic]
#[kani::stub(real_catch_unwind, stub_catch_unwind)]
fn c02_o6_set_never_change_field_panics() {
    let mut w = world(Durability::NEVER_CHANGE, any_durability(), 1, 1);
    w.rt.new_revision();
    let new_d: Option<Durability> = if kani::any() { Some(any_durability()) } else { None };
    let _ = w.ing.set_field(&mut w.rt, VInS(w.id), 0, new_d, |f| f.0 = kani::any());
    kani::cover!(true, "MUST-BE-UNREACHABLE: set_field on a NEVER_CHANGE field returned");
    std::mem::forget(w);
}

/// The ingredients a `#[salsa::input]` with two fields registers: struct at `base`, fields at `base+1`, `base+2`.
pub(crate) fn vin_ingredients() -> Vec<Box<dyn crate::ingredient::Ingredient>> {
    let base = IngredientIndex::new(0);
    vec![
        Box::new(IngredientImpl::<VIn>::new(base)),
        Box::new(FieldIngredientImpl::<VIn>::new(base, 0)),
        Box::new(FieldIngredientImpl::<VIn>::new(base, 1)),
    ]
}

/// Allocate one `VIn` value in `zalsa`'s table (page-backed, no hashing).
pub(crate) fn alloc_vin(zalsa: &Zalsa, revisions: [Revision; 2], durabilities: [Durability; 2]) -> Id {
    alloc_vin_with_types(zalsa, revisions, durabilities, Arc::new(MemoTableTypes::default()))
}

/// The same with a given memo-type table for the page (so that memos can be attached to the value).
pub(crate) fn alloc_vin_with_types(zalsa: &Zalsa, revisions: [Revision; 2], durabilities: [Durability; 2], types: Arc<MemoTableTypes>) -> Id {
    let page = zalsa.table().push_page::<Value<VIn>>(IngredientIndex::new(0), types.clone());
    // SAFETY: single-threaded; we are the unique writer of the page.
    match unsafe {
        zalsa.table().page::<Value<VIn>>(page).allocate(page, |_| Value::<VIn> {
            fields: (1, 2),
            revisions,
            durabilities,
            memos: MemoTable::new(&types),
        })
    } {
        Ok((id, _)) => id,
        Err(_) => panic!("fresh page is full"),
    }
}
