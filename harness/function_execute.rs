// Kani harnesses for /repo/src/function/execute.rs (compiled as `crate::function::execute::verif`).
// Properties: C21 (disable guard restores the outer state).

use crate::verif_prelude::*;

// @verif prop=C21 obl=O3 tier=quick bounds="every initial token state (cancelled x disabled); two nested guards; cancel() arriving at any of 3 points"
// @+ encodes="DisableLocalCancellationGuard::new, DisableLocalCancellationGuard::drop, ZalsaLocal::set_cancellation_disabled, CancellationToken::set_cancellation_disabled, CancellationToken::cancel, ZalsaLocal::should_trigger_local_cancellation"
/// C21-O3: while a disable guard is alive, cancellation never triggers; dropping nested guards restores the outer
/// disabled state exactly; a cancel() that arrives while disabled is not lost and triggers once the outermost guard is gone.
#[kani::proof]
#[kani::unwind(4)]
#[kani::stub(real_catch_unwind, stub_catch_unwind)]
fn c21_o3_disable_guard_restores() {
    let local = ZalsaLocal::new();
    let token = local.cancellation_token();
    let mut cancelled: bool = kani::any();
    // the surrounding state: either already inside a disabled section (an enclosing fixpoint query) or not
    let disabled0: bool = kani::any();
    if cancelled {
        token.cancel();
    }
    let outer = if disabled0 { Some(DisableLocalCancellationGuard::new(&local)) } else { None };
    let when: u8 = kani::any();
    kani::assume(when < 4);
    {
        let _g1 = DisableLocalCancellationGuard::new(&local);
        if when == 0 {
            token.cancel();
            cancelled = true;
        }
        assert!(!local.should_trigger_local_cancellation(), "C21: cancellation triggered inside a disabled section");
        {
            let _g2 = DisableLocalCancellationGuard::new(&local);
            if when == 1 {
                token.cancel();
                cancelled = true;
            }
            assert!(!local.should_trigger_local_cancellation(), "C21: cancellation triggered inside a nested disabled section");
        }
        // inner guard restored "disabled" (the state set by the outer guard)
        assert!(!local.should_trigger_local_cancellation(), "C21: inner guard re-enabled cancellation inside the outer section");
        if when == 2 {
            token.cancel();
            cancelled = true;
        }
    }
    assert!(token.is_cancelled() == cancelled, "C21: a cancel() request was lost or invented across a disabled section");
    assert!(
        local.should_trigger_local_cancellation() == (cancelled && !disabled0),
        "C21: outer cancellation-disabled state not restored"
    );
    kani::cover!(cancelled && !disabled0 && when == 1);
    kani::cover!(disabled0);
    std::mem::forget(outer);
    std::mem::forget(token);
    std::mem::forget(local);
}
