// Kani harnesses for /repo/src/active_query.rs (compiled as `crate::active_query::verif`).
// Properties: C04-O1 / C01-O1 (what a completed query stores).

use crate::verif_prelude::*;

// @verif prop=C04,C01,C03 obl=O1 tier=quick bounds="every (changed_at < 2^40, durability, untracked flag, final flag); no edges, no extra data"
// @+ encodes="QueryCompletion::finish, OriginAndExtra::derived, OriginAndExtra::derived_untracked"
/// C04-O1: a completion that saw an untracked read is stored with a DerivedUntracked origin (so it can never be
/// validated without re-execution), otherwise Derived; stamp and final flag are carried over unchanged.
#[kani::proof]
#[kani::unwind(4)]
#[kani::stub(real_catch_unwind, stub_catch_unwind)]
fn c04_o1_finish_origin_kind() {
    let changed: usize = kani::any();
    kani::assume(1 <= changed && changed < REV_MAX);
    let d = any_durability();
    let untracked: bool = kani::any();
    let fin: bool = kani::any();
    let c = QueryCompletion {
        changed_at: Revision::from(changed),
        durability: d,
        untracked_read: untracked,
        extra: QueryRevisionsExtra::default(),
        #[cfg(feature = "accumulator")]
        accumulated_inputs: Default::default(),
        verified_final: fin,
        stale_tracked_structs: Vec::new(),
    };
    let done = c.finish(std::iter::empty());
    let rv = &done.revisions;
    assert!(rv.changed_at.as_usize() == changed, "C01: completion changed the stamp");
    assert!(rv.durability == d, "C01: completion changed the durability");
    assert!(rv.is_derived_untracked() == untracked, "C04: the untracked-read flag is not reflected in the stored origin");
    match rv.origin() {
        crate::zalsa_local::QueryOriginRef::Derived(_) => { assert!(!untracked, "C04: a query that read untracked state completed as fully tracked") }
        crate::zalsa_local::QueryOriginRef::DerivedUntracked(_) => { assert!(untracked, "C03: a fully tracked query completed as untracked") }
        crate::zalsa_local::QueryOriginRef::Assigned(_) => panic!("C01: completed query has an assigned origin"),
    }
    assert!(rv.verified_final.load(std::sync::atomic::Ordering::Relaxed) == fin);
    kani::cover!(untracked);
    kani::cover!(!untracked);
    std::mem::forget(done);
}

// @verif prop=C01,C04,C03 obl=O1 tier=quick bounds="a frame (not inside the query stack: a frame stored in the stack's Vec loses its emptiness facts and drags hashbrown drain + sort into the formula) after one symbolic operation (untracked read at `now` or a revision-only read at r <= now < 2^40); then completion"
// @+ encodes="ActiveQuery::new, ActiveQuery::add_untracked_read, ActiveQuery::add_changed_at, ActiveQuery::stamp, ActiveQuery::prepare_completion, DisambiguatorMap::clear, IdentityMap::drain, QueryRevisionsExtra::new, QueryCompletion::finish"
/// C01-O1a/C04-O1: completing a frame carries exactly its recorded stamp into the stored revisions; the stored origin
/// is DerivedUntracked iff an untracked read was recorded; a frame without cycle heads completes as final.
#[kani::proof]
#[kani::unwind(4)]
#[kani::stub(real_catch_unwind, stub_catch_unwind)]
fn c01_o1_frame_completion() {
    let mut q = ActiveQuery::new(key(3, 0, 0));
    let now: usize = kani::any();
    kani::assume(1 <= now && now < REV_MAX);
    let untracked: bool = kani::any();
    let r: usize = kani::any();
    kani::assume(1 <= r && r <= now);
    if untracked {
        q.add_untracked_read(Revision::from(now));
    } else {
        q.add_changed_at(Revision::from(r));
    }
    let stamp = q.stamp();
    let c = q.prepare_completion(IterationStamp::default(), false);
    let done = c.finish(q.input_outputs.drain(..));
    let rv = &done.revisions;
    assert!(rv.changed_at == stamp.changed_at && rv.durability == stamp.durability, "C01: completion does not carry the recorded stamp");
    if untracked {
        assert!(rv.durability == Durability::LOW && rv.changed_at.as_usize() == now, "C04: untracked read did not force (LOW, now)");
    } else {
        assert!(rv.durability == Durability::NEVER_CHANGE && rv.changed_at.as_usize() == r);
    }
    assert!(rv.is_derived_untracked() == untracked, "C04: the untracked-read flag is not reflected in the stored origin");
    assert!(rv.verified_final.load(std::sync::atomic::Ordering::Relaxed), "C01: a query without cycle heads did not complete as final");
    assert!(done.stale_tracked_structs.is_empty());
    kani::cover!(untracked);
    kani::cover!(!untracked && r > 1);
    std::mem::forget(done);
    std::mem::forget(q);
}

// @verif prop=NONE obl=X tier=thorough bounds="probe: draining the empty input_outputs set"
#[kani::proof]
#[kani::unwind(4)]
#[kani::stub(real_catch_unwind, stub_catch_unwind)]
fn x_aq_drain_empty() {
    let mut q = ActiveQuery::new(key(3, 0, 0));
    let n = q.input_outputs.drain(..).len();
    assert!(n == 0);
    std::mem::forget(q);
}

/// Does the frame hold an input edge to `key`? (linear scan over the recorded edges: no hashing)
pub(crate) fn frame_has_input_edge(q: &ActiveQuery, key: DatabaseKeyIndex) -> bool {
    q.input_outputs.iter().any(|e| *e == QueryEdge::input(key))
}
