// Kani harnesses for /repo/src/runtime.rs (compiled as `crate::runtime::verif`).
// Properties: C02-O1/O6 (durability bookkeeping), C20-O2 (cancellation counter).

use crate::verif_prelude::*;

impl Runtime {
    /// Construct an arbitrary bookkeeping state (verification only).
    pub(crate) fn verif_set_revisions(&mut self, r: [Revision; Durability::LEN]) {
        self.revisions = r;
    }

    pub(crate) fn verif_set_cancellation_count(&mut self, c: u8) {
        *self.cancellation_count.get_mut() = c;
    }
}

/// A runtime in an arbitrary state that satisfies the representation invariant
/// `INV: rev[LOW] >= rev[MEDIUM] >= rev[HIGH] >= R1` (returns the three raw values too).
pub(crate) fn any_runtime() -> (Runtime, [usize; 3]) {
    let a: usize = kani::any();
    let b: usize = kani::any();
    let c: usize = kani::any();
    kani::assume(a >= b && b >= c && c >= 1 && a < REV_MAX);
    let mut rt = Runtime::default();
    rt.verif_set_revisions([Revision::from(a), Revision::from(b), Revision::from(c)]);
    (rt, [a, b, c])
}

pub(crate) fn inv(rt: &Runtime) -> bool {
    let l = rt.last_changed_revision(Durability::LOW);
    let m = rt.last_changed_revision(Durability::MEDIUM);
    let h = rt.last_changed_revision(Durability::HIGH);
    l >= m && m >= h && h >= Revision::start() && rt.current_revision() == l
}

// @verif prop=C02,C03 obl=O1 tier=quick bounds="one step from every state satisfying INV; revisions < 2^40"
// @+ encodes="Runtime::new_revision, Runtime::report_tracked_write, Runtime::last_changed_revision, Runtime::current_revision"
/// C02-O1a inductive step: from any state with INV, `new_revision; report_tracked_write(d)`
/// re-establishes INV, sets last_changed(e) = now for every e <= d and leaves e > d untouched.
#[kani::proof]
#[kani::unwind(5)]
#[kani::stub(real_catch_unwind, stub_catch_unwind)]
fn c02_o1_write_step() {
    let (mut rt, [a, b, c]) = any_runtime();
    assert!(inv(&rt));
    let now = rt.new_revision();
    assert!(now.as_usize() == a + 1, "C02: new_revision does not advance by one");
    assert!(rt.current_revision() == now);
    // a new revision alone changes only the LOW slot
    assert!(rt.last_changed_revision(Durability::MEDIUM).as_usize() == b, "C03: a new revision alone invalidated MEDIUM memos");
    assert!(rt.last_changed_revision(Durability::HIGH).as_usize() == c, "C03: a new revision alone invalidated HIGH memos");
    let d = any_durability3();
    rt.report_tracked_write(d);
    let di = dur_index(d);
    assert!(rt.last_changed_revision(Durability::LOW) == now, "C02: LOW not marked changed by a write");
    if di >= 1 {
        assert!(rt.last_changed_revision(Durability::MEDIUM) == now, "C02: write of durability >= MEDIUM did not mark MEDIUM changed");
    } else {
        assert!(rt.last_changed_revision(Durability::MEDIUM).as_usize() == b, "C03: a LOW write invalidated MEDIUM memos");
    }
    if di >= 2 {
        assert!(rt.last_changed_revision(Durability::HIGH) == now, "C02: write of durability HIGH did not mark HIGH changed");
    } else {
        assert!(rt.last_changed_revision(Durability::HIGH).as_usize() == c, "C03: a write below HIGH invalidated HIGH memos");
    }
    assert!(rt.last_changed_revision(Durability::NEVER_CHANGE) == Revision::start(), "C02: NEVER_CHANGE has a last-changed revision other than R1");
    assert!(inv(&rt), "C02: runtime revision invariant broken by a write");
    kani::cover!(di == 2 && b > c);
    kani::cover!(di == 0 && a > b);
    std::mem::forget(rt);
}

// @verif prop=C02,C03 obl=O1 tier=quick bounds="histories of <= 3 writes of symbolic durability from the initial state"
// @+ encodes="Runtime::default, Runtime::new_revision, Runtime::report_tracked_write, Runtime::last_changed_revision"
/// C02-O1b bounded history: after up to 3 symbolic writes from the start state,
/// last_changed(e) equals the reference fold "revision of the last write with d_i >= e" (R1 if none).
#[kani::proof]
#[kani::unwind(5)]
#[kani::stub(real_catch_unwind, stub_catch_unwind)]
fn c02_o1_write_history() {
    let mut rt = Runtime::default();
    let n: usize = kani::any();
    kani::assume(n <= 3);
    let ds: [u8; 3] = [kani::any(), kani::any(), kani::any()];
    kani::assume(ds[0] < 3 && ds[1] < 3 && ds[2] < 3);
    let mut i = 0;
    while i < n {
        rt.new_revision();
        rt.report_tracked_write(dur(ds[i]));
        i += 1;
    }
    // reference: fold over the history, written differently from the implementation
    let mut e = 0u8;
    while e < 3 {
        let mut expect = 1usize; // R1
        let mut i = 0;
        while i < n {
            if ds[i] >= e {
                expect = i + 2; // the i-th write happens in revision R(i+2)
            }
            i += 1;
        }
        // LOW is "now" even without any write in the last revision; with writes they coincide
        let got = rt.last_changed_revision(dur(e)).as_usize();
        assert!(got >= expect, "C02: a write of durability >= e is not reflected in last_changed(e)");
        assert!(got <= expect, "C03: last_changed(e) is later than the last write of durability >= e");
        e += 1;
    }
    assert!(rt.current_revision().as_usize() == n + 1);
    assert!(inv(&rt));
    kani::cover!(n == 3 && ds[0] == 2 && ds[1] == 0 && ds[2] == 1);
    std::mem::forget(rt);
}

// @verif prop=C02 obl=O6 tier=quick bounds="every runtime state satisfying INV" covers=0/1
// @+ encodes="Runtime::report_tracked_write"
/// C02-O6: a never-change write panics in every runtime state (the code after the call is unreachable).
#[kani::proof]
#[kani::unwind(5)]
#[kani::should_panic]
#[kani::stub(real_catch_unwind, stub_catch_unwind)]
fn c02_o6_never_change_write_panics() {
    let (mut rt, _) = any_runtime();
    rt.report_tracked_write(Durability::NEVER_CHANGE);
    kani::cover!(true, "MUST-BE-UNREACHABLE: report_tracked_write(NEVER_CHANGE) returned");
    std::mem::forget(rt);
}

// @verif prop=C02 obl=O6 tier=quick bounds="every runtime state satisfying INV"
// @+ encodes="Runtime::last_changed_revision, Runtime::new_revision"
/// C02-O6: NEVER_CHANGE has last-changed revision R1 in every state, also after new revisions.
#[kani::proof]
#[kani::unwind(5)]
#[kani::stub(real_catch_unwind, stub_catch_unwind)]
fn c02_o6_never_change_last_changed_is_r1() {
    let (mut rt, _) = any_runtime();
    assert!(rt.last_changed_revision(Durability::NEVER_CHANGE) == Revision::start());
    rt.new_revision();
    assert!(rt.last_changed_revision(Durability::NEVER_CHANGE) == Revision::start());
    assert!(inv(&rt));
    std::mem::forget(rt);
}

// @verif prop=C20 obl=O2 tier=quick bounds="all values: every counter value 0..=255"
// @+ encodes="Runtime::bump_cancellation_count, Runtime::cancellation_count, Runtime::new_revision"
/// C20-O2: the cancellation counter never wraps: `bump` returns true (caller must start a new
/// revision) exactly at 255 and then leaves the counter; otherwise it advances by one; a new
/// revision resets it to 0.
#[kani::proof]
#[kani::unwind(5)]
#[kani::stub(real_catch_unwind, stub_catch_unwind)]
fn c20_o2_cancellation_count() {
    let (mut rt, _) = any_runtime();
    let c: u8 = kani::any();
    rt.verif_set_cancellation_count(c);
    assert!(rt.cancellation_count() == c);
    let overflow = rt.bump_cancellation_count();
    if c == u8::MAX {
        assert!(overflow, "C20: counter at 255 did not request a new revision");
        assert!(rt.cancellation_count() == u8::MAX, "C20: cancellation counter wrapped");
    } else {
        assert!(!overflow);
        assert!(rt.cancellation_count() == c + 1, "C20: cancellation epoch did not advance");
    }
    rt.new_revision();
    assert!(rt.cancellation_count() == 0, "C20: new revision did not reset the cancellation epoch");
    kani::cover!(c == u8::MAX);
    kani::cover!(c == 0);
    std::mem::forget(rt);
}

// @verif prop=C20 obl=O2 tier=quick bounds="all values of the flag"
// @+ encodes="Runtime::set_cancellation_flag, Runtime::reset_cancellation_flag, Runtime::load_cancellation_flag"
/// C20-O2: the revision-cancelled flag is exactly what was last stored.
#[kani::proof]
#[kani::unwind(5)]
#[kani::stub(real_catch_unwind, stub_catch_unwind)]
fn c20_o2_cancellation_flag() {
    let rt = Runtime::default();
    assert!(!rt.load_cancellation_flag());
    rt.set_cancellation_flag();
    assert!(rt.load_cancellation_flag());
    rt.reset_cancellation_flag();
    assert!(!rt.load_cancellation_flag());
    std::mem::forget(rt);
}
