// Kani harnesses for /repo/src/storage.rs (compiled as `crate::storage::verif`).
// A `Storage` is built literally around an ingredient-free `Zalsa` (going through `Storage::new`
// costs > 10 min of CBMC time), then the *public* `Database` entry points are driven.
// Properties: C04 (report_untracked_read). The write-path harnesses (synthetic_write, trigger_cancellation through
// `Storage::cancel_others`) did not come back within 20 min even with `Condvar::wait` and `Zalsa::event_cold` stubbed;
// they are kept as probes (prop=NONE) and are not part of any claim.

use crate::verif_prelude::*;
use crate::zalsa::verif::{any_zalsa, VDb};
use crate::{Database, Durability};

pub(crate) fn storage_around(zalsa: Zalsa) -> Storage<VDb> {
    let mut st = storage_around_raw(zalsa);
    // Re-state, field by field, facts about the (moved) `Zalsa` that CBMC loses when the struct is
    // copied bytewise into the `Arc` allocation: no ingredients, none requiring reset, no callback.
    // Without them the write path fans out into a dynamic dispatch over every `Ingredient` impl.
    if let Some(z) = Arc::get_mut(&mut st.handle.zalsa_impl) {
        crate::zalsa::verif::restate_empty(z);
    }
    st
}

fn storage_around_raw(zalsa: Zalsa) -> Storage<VDb> {
    Storage {
        handle: StorageHandle {
            zalsa_impl: Arc::new(zalsa),
            coordinate: CoordinateDrop(Arc::new(Coordinate { clones: Mutex::new(1), cvar: Default::default() })),
            phantom: PhantomData,
        },
        zalsa_local: ZalsaLocal::new(),
    }
}

// @verif prop=NONE obl=O8 tier=thorough bounds="single handle (no clones); arbitrary INV runtime state (< 2^40), arbitrary cancellation epoch (0..=255); symbolic durability LOW/MEDIUM/HIGH"
// @+ encodes="Database::synthetic_write (default method), ZalsaDatabase::zalsa_mut (blanket impl for HasStorage), Storage::cancel_others, CancellationFlagGuard::new/drop, Runtime::bump_cancellation_count, Zalsa::new_revision, Runtime::new_revision, Runtime::report_tracked_write"
/// C02/C20 through the public API: `db.synthetic_write(d)` starts exactly one new revision (two if the cancellation epoch
/// was saturated), marks every durability <= d as changed now and nothing above, leaves the cancellation flag clear and
/// the epoch at zero (new revision), and preserves the runtime invariant.
#[kani::proof]
#[kani::unwind(5)]
#[kani::stub(real_catch_unwind, stub_catch_unwind)]
#[kani::stub(crate::sync::Condvar::wait, stub_condvar_wait)]
#[kani::stub(crate::zalsa::Zalsa::event_cold, stub_event_cold)]
fn c02_o8_synthetic_write_public_api() {
    let (mut zalsa, revs) = any_zalsa();
    let epoch: u8 = kani::any();
    zalsa.runtime_mut().verif_set_cancellation_count(epoch);
    let mut db = VDb::verif_new(storage_around(zalsa));
    let d = any_durability3();
    db.synthetic_write(d);
    let z = db.zalsa();
    let now = z.current_revision().as_usize();
    let expect_now = if epoch == u8::MAX { revs[0] + 2 } else { revs[0] + 1 };
    assert!(now == expect_now, "C20: a write did not start exactly one new revision (two when the cancellation epoch overflowed)");
    assert!(!z.runtime().load_cancellation_flag(), "C20: cancellation flag left set after the write acquired the database");
    assert!(z.runtime().cancellation_count() == 0, "C20: cancellation epoch not reset by the new revision");
    let di = dur_index(d);
    assert!(z.last_changed_revision(Durability::LOW).as_usize() == now);
    if di >= 1 {
        assert!(z.last_changed_revision(Durability::MEDIUM).as_usize() == now, "C02: synthetic write of durability >= MEDIUM did not invalidate MEDIUM memos");
    } else {
        assert!(z.last_changed_revision(Durability::MEDIUM).as_usize() == revs[1]);
    }
    if di >= 2 {
        assert!(z.last_changed_revision(Durability::HIGH).as_usize() == now, "C02: synthetic write of durability HIGH did not invalidate HIGH memos");
    } else {
        assert!(z.last_changed_revision(Durability::HIGH).as_usize() == revs[2]);
    }
    assert!(crate::runtime::verif::inv(z.runtime()), "C02: runtime revision invariant broken by a synthetic write");
    kani::cover!(epoch == u8::MAX);
    kani::cover!(di == 2 && revs[1] > revs[2]);
    std::mem::forget(db);
}

// @verif prop=NONE obl=O8 tier=thorough bounds="single handle; arbitrary INV runtime state" covers=0/1
// @+ encodes="Database::synthetic_write, Storage::cancel_others, Runtime::report_tracked_write"
/// C02-O6 through the public API: a never-change synthetic write panics in every state.
#[kani::proof]
#[kani::unwind(5)]
#[kani::should_panic]
#[kani::stub(real_catch_unwind, stub_catch_unwind)]
#[kani::stub(crate::sync::Condvar::wait, stub_condvar_wait)]
#[kani::stub(crate::zalsa::Zalsa::event_cold, stub_event_cold)]
fn c02_o8_never_change_synthetic_write_panics() {
    let (zalsa, _) = any_zalsa();
    let mut db = VDb::verif_new(storage_around(zalsa));
    db.synthetic_write(Durability::NEVER_CHANGE);
    kani::cover!(true, "MUST-BE-UNREACHABLE: synthetic_write(NEVER_CHANGE) returned");
    std::mem::forget(db);
}

// @verif prop=NONE obl=O5 tier=thorough bounds="single handle; arbitrary INV runtime state and cancellation epoch"
// @+ encodes="Database::trigger_cancellation, Storage::cancel_others, CancellationFlagGuard, Runtime::bump_cancellation_count, Zalsa::new_revision"
/// C20-O5: acquiring the database for writing (here via trigger_cancellation) advances the cancellation epoch by one --
/// or, when the epoch counter is saturated, starts a new revision instead -- so provisional results stamped before the
/// cancellation never carry the current (revision, epoch) pair; the flag is clear again afterwards.
#[kani::proof]
#[kani::unwind(5)]
#[kani::stub(real_catch_unwind, stub_catch_unwind)]
#[kani::stub(crate::sync::Condvar::wait, stub_condvar_wait)]
#[kani::stub(crate::zalsa::Zalsa::event_cold, stub_event_cold)]
fn c20_o5_write_acquisition_advances_epoch() {
    let (mut zalsa, revs) = any_zalsa();
    let epoch: u8 = kani::any();
    zalsa.runtime_mut().verif_set_cancellation_count(epoch);
    let mut db = VDb::verif_new(storage_around(zalsa));
    db.trigger_cancellation();
    let z = db.zalsa();
    let now = z.current_revision().as_usize();
    let e2 = z.runtime().cancellation_count();
    assert!(!z.runtime().load_cancellation_flag(), "C20: cancellation flag left set");
    if epoch == u8::MAX {
        assert!(now == revs[0] + 1 && e2 == 0, "C20: saturated cancellation epoch did not force a new revision");
    } else {
        assert!(now == revs[0] && e2 == epoch + 1, "C20: cancellation epoch not advanced by the cancellation");
    }
    assert!((now, e2) != (revs[0], epoch), "C20: (revision, epoch) unchanged by a cancellation: abandoned provisional memos would be accepted");
    kani::cover!(epoch == u8::MAX);
    kani::cover!(epoch == 0);
    std::mem::forget(db);
}

// @verif prop=C04 obl=O1 tier=quick bounds="single handle; arbitrary INV runtime state; one active query"
// @+ encodes="Database::report_untracked_read (default method), ZalsaDatabase::zalsas, ZalsaLocal::report_untracked_read, ActiveQuery::add_untracked_read, ZalsaLocal::active_query"
/// C04-O1 through the public API: `db.report_untracked_read()` inside a query forces the query's stamp to (LOW, current revision).
#[kani::proof]
#[kani::unwind(5)]
#[kani::stub(real_catch_unwind, stub_catch_unwind)]
fn c04_o1_report_untracked_read_public_api() {
    let (zalsa, revs) = any_zalsa();
    let db = VDb::verif_new(storage_around(zalsa));
    let guard = db.zalsa_local().push_query(key(3, 0, 0));
    db.report_untracked_read();
    match db.zalsa_local().active_query() {
        Some((_, stamp)) => {
            assert!(stamp.durability == Durability::LOW, "C04: untracked read did not force LOW durability");
            assert!(stamp.changed_at.as_usize() == revs[0], "C04: untracked read did not force changed_at = current revision");
        }
        None => panic!("C04: no active query"),
    }
    std::mem::forget(guard);
    std::mem::forget(db);
}

// ---- cost probes (prop=NONE) ----

// @verif prop=NONE obl=X tier=thorough bounds="probe"
#[kani::proof]
#[kani::unwind(5)]
#[kani::stub(real_catch_unwind, stub_catch_unwind)]
fn x_st_flag_guard() {
    let (zalsa, _) = any_zalsa();
    let st = storage_around(zalsa);
    {
        let _g = CancellationFlagGuard::new(&st.handle.zalsa_impl);
        assert!(st.handle.zalsa_impl.runtime().load_cancellation_flag());
    }
    assert!(!st.handle.zalsa_impl.runtime().load_cancellation_flag());
    std::mem::forget(st);
}

// @verif prop=NONE obl=X tier=thorough bounds="probe"
#[kani::proof]
#[kani::unwind(5)]
#[kani::stub(real_catch_unwind, stub_catch_unwind)]
fn x_st_lock_clones() {
    let (zalsa, _) = any_zalsa();
    let st = storage_around(zalsa);
    {
        let clones = st.handle.coordinate.clones.lock();
        assert!(*clones == 1);
    }
    std::mem::forget(st);
}

// @verif prop=NONE obl=X tier=thorough bounds="probe"
#[kani::proof]
#[kani::unwind(5)]
#[kani::stub(real_catch_unwind, stub_catch_unwind)]
fn x_st_arc_get_mut() {
    let (zalsa, _) = any_zalsa();
    let mut st = storage_around(zalsa);
    let z = Arc::get_mut(&mut st.handle.zalsa_impl).unwrap();
    let _ = z.runtime_mut().bump_cancellation_count();
    std::mem::forget(st);
}

// @verif prop=NONE obl=X tier=thorough bounds="probe"
#[kani::proof]
#[kani::unwind(5)]
#[kani::stub(real_catch_unwind, stub_catch_unwind)]
fn x_st_query_stack_check() {
    let (zalsa, _) = any_zalsa();
    let st = storage_around(zalsa);
    assert!(st.zalsa_local.try_with_query_stack(|stack| stack.is_empty()) == Some(true));
    std::mem::forget(st);
}

// @verif prop=NONE obl=X tier=thorough bounds="probe"
#[kani::proof]
#[kani::unwind(5)]
#[kani::stub(real_catch_unwind, stub_catch_unwind)]
#[kani::stub(crate::sync::Condvar::wait, stub_condvar_wait)]
#[kani::stub(crate::zalsa::Zalsa::event_cold, stub_event_cold)]
fn x_st_cancel_others() {
    let (zalsa, _) = any_zalsa();
    let mut st = storage_around(zalsa);
    let z = st.cancel_others();
    assert!(!z.runtime().load_cancellation_flag());
    std::mem::forget(st);
}

// @verif prop=C21 obl=O4 tier=quick bounds="single handle; cancel() issued before the outermost scope, inside it, or inside a nested scope (3 cases, symbolic); two nested attach scopes"
// @+ encodes="attach::attach (public), Attached::attach, DbGuard::new/drop, Database::cancellation_token, ZalsaLocal::uncancel, CancellationToken::reset, CancellationToken::cancel/is_cancelled"
/// C21-O4 (public API): the handle's cancellation token is reset when the *outermost* attached scope (the outermost
/// tracked-function call) returns, and not before: leaving a nested scope keeps a pending cancellation request.
#[kani::proof]
#[kani::unwind(5)]
#[kani::stub(real_catch_unwind, stub_catch_unwind)]
fn c21_o4_token_reset_after_outermost_scope() {
    let (zalsa, _) = any_zalsa();
    let db = VDb::verif_new(storage_around_raw(zalsa));
    let token = db.cancellation_token();
    let when: u8 = kani::any();
    kani::assume(when < 3);
    if when == 0 {
        token.cancel();
    }
    let t1 = token.clone();
    let still_cancelled_after_inner = crate::attach::attach(&db, || {
        if when == 1 {
            t1.cancel();
        }
        crate::attach::attach(&db, || {
            if when == 2 {
                t1.cancel();
            }
        });
        t1.is_cancelled()
    });
    assert!(still_cancelled_after_inner, "C21: leaving a nested scope dropped a pending cancellation request");
    assert!(!token.is_cancelled(), "C21: the token was not reset when the outermost call returned");
    assert!(!db.zalsa_local().should_trigger_local_cancellation(), "C21: a later request on the handle would still be cancelled");
    kani::cover!(when == 2);
    kani::cover!(when == 0);
    std::mem::forget(db);
}
