// Kani harness support for /repo/src/function/sync.rs (compiled as `crate::function::sync::verif`).
// Constructs a `ClaimGuard` for a key directly (struct literal): `SyncTable::try_claim` calls
// `std::thread::current()`, which Kani cannot execute. The guard is only a capability token for the
// verification entry points; harnesses `mem::forget` it (its drop releases the claim in a hash table).

use crate::verif_prelude::*;

/// Owns the shard a fabricated guard points into (the shard type itself is private to this module).
pub(crate) struct GuardHome {
    shard: SyncShard,
}

impl GuardHome {
    pub(crate) fn new(ingredient: IngredientIndex) -> Self {
        GuardHome { shard: SyncShard { syncs: Mutex::default(), ingredient } }
    }

    pub(crate) fn guard<'a>(&'a self, zalsa: &'a Zalsa, zalsa_local: &'a ZalsaLocal, key_index: Id) -> ClaimGuard<'a> {
        ClaimGuard { key_index, zalsa, shard: &self.shard, mode: ReleaseMode::Default, zalsa_local }
    }
}

// @verif prop=NONE obl=X tier=thorough bounds="feasibility probe: one insert + find + remove on hashbrown::HashTable<SyncState> with a concrete key"
/// Probe (not part of any claim): cost of a single hashbrown insert/find/remove under CBMC.
#[kani::proof]
#[kani::unwind(6)]
#[kani::stub(real_catch_unwind, stub_catch_unwind)]
fn x_probe_hashtable_one_insert() {
    let mut t: HashTable<SyncState> = HashTable::new();
    // SAFETY: small index.
    let k = unsafe { Id::from_index(0) };
    let hash = FxBuildHasher.hash_one(k);
    t.insert_unique(
        hash,
        SyncState { key: k, id: SyncOwner::Transferred, anyone_waiting: false, is_transfer_target: false, claimed_twice: false },
        |s| FxBuildHasher.hash_one(s.key),
    );
    let found = t.find_entry(hash, |s| s.key == k);
    assert!(found.is_ok());
    if let Ok(e) = found {
        let (s, _) = e.remove();
        assert!(s.key == k);
    }
    assert!(t.is_empty());
    std::mem::forget(t);
}
