// Kani harness support for /repo/src/function/sync.rs (compiled as `crate::function::sync::verif`).
// Constructs a `ClaimGuard` for a key directly (struct literal): `SyncTable::try_claim` calls
// `std::thread::current()`, which Kani cannot execute. The guard is only a capability token for the
// verification entry points; harnesses `mem::forget` it (its drop releases the claim in a hash table).

use crate::verif_prelude::*;

/// Owns the shard a fabricated guard points into (the shard type itself is private to this module).
pub(crate) struct GuardHome {
    shard: SyncShard,
}

impl GuardHome {
    pub(crate) fn new(ingredient: IngredientIndex) -> Self {
        GuardHome { shard: SyncShard { syncs: Mutex::default(), ingredient } }
    }

    pub(crate) fn guard<'a>(&'a self, zalsa: &'a Zalsa, zalsa_local: &'a ZalsaLocal, key_index: Id) -> ClaimGuard<'a> {
        ClaimGuard { key_index, zalsa, shard: &self.shard, mode: ReleaseMode::Default, zalsa_local }
    }
}
