// Kani harnesses for /repo/src/function/backdate.rs (compiled as `crate::function::backdate::verif`).
// Properties: C01-O4 / C02-O4 (backdating never hides a change), C03-O2 (backdating happens).

use crate::verif_prelude::*;
use crate::function::verif::*;
use crate::cycle::CycleHeads;
use crate::Durability;

struct Case {
    old_changed: usize,
    new_changed: usize,
    old_d: Durability,
    new_d: Durability,
    old_final: bool,
    new_has_heads: bool,
}

fn any_case() -> Case {
    let c = Case {
        old_changed: kani::any(),
        new_changed: kani::any(),
        old_d: any_durability(),
        new_d: any_durability(),
        old_final: kani::any(),
        new_has_heads: kani::any(),
    };
    kani::assume(1 <= c.old_changed && c.old_changed < REV_MAX);
    kani::assume(1 <= c.new_changed && c.new_changed < REV_MAX);
    c
}

fn build(c: &Case, old_shape: OriginShape) -> (MemoHeader, QueryRevisions) {
    let old = header_of(c.old_changed.max(1), revisions_of(c.old_changed, c.old_d, origin_of(old_shape), c.old_final));
    let mut new = revisions_of(c.new_changed, c.new_d, origin_of(OriginShape::Derived), !c.new_has_heads);
    if c.new_has_heads {
        new.set_cycle_heads(CycleHeads::initial(key(4, 0, 0), crate::cycle::verif::stamp(0, 0)), crate::cycle::verif::stamp(0, 0));
    }
    (old, new)
}

// @verif prop=C01,C02,C03 obl=O4 tier=quick bounds="every old/new changed_at in [1, 2^40), every durability pair, old memo final or provisional, new revisions with or without a cycle head, old origin Derived/DerivedUntracked/Assigned"
// @+ encodes="MemoHeader::can_backdate, MemoHeader::backdate, MemoHeader::may_be_provisional, QueryRevisions::cycle_heads"
/// C01-O4/C02-O4 (soundness): backdating is permitted only when the new revisions have no cycle heads, the old
/// memo is final and the durability did not decrease; when applied (old.changed_at <= new.changed_at) it sets
/// changed_at to the old memo's and never raises it.
#[kani::proof]
#[kani::unwind(4)]
#[kani::stub(real_catch_unwind, stub_catch_unwind)]
fn c01_o4_backdate_sound() {
    let c = any_case();
    let (old, mut new) = build(&c, any_origin_shape());
    let can = old.can_backdate(&new);
    if can {
        assert!(!c.new_has_heads, "C01: backdating permitted for a memo with cycle heads");
        assert!(c.old_final, "C01: backdating permitted against a provisional old memo");
        assert!(dur_index(c.new_d) >= dur_index(c.old_d), "C02: backdating permitted across a durability decrease");
        if c.old_changed <= c.new_changed {
            old.backdate(key(3, 0, 0), &mut new);
            assert!(new.changed_at.as_usize() >= c.old_changed, "C01: backdate moved changed_at before the revision in which the value last changed");
            assert!(new.changed_at.as_usize() <= c.new_changed, "C01: backdate raised changed_at");
            assert!(new.changed_at.as_usize() == c.old_changed, "C03: backdate did not restore the old changed_at");
            assert!(new.durability == c.new_d, "C02: backdate altered the durability");
        }
    }
    // witnesses are regions of the *input* space (not salsa's decisions), so that a more conservative salsa
    // does not make this soundness harness look vacuous
    kani::cover!(!c.new_has_heads && c.old_final && dur_index(c.new_d) >= dur_index(c.old_d) && c.old_changed < c.new_changed);
    kani::cover!(!c.new_has_heads && c.old_final && dur_index(c.new_d) < dur_index(c.old_d));
    std::mem::forget(old);
    std::mem::forget(new);
}

// @verif prop=C03 obl=O2 tier=quick bounds="as c01_o4_backdate_sound, restricted to the cases where the property demands reuse"
// @+ encodes="MemoHeader::can_backdate, MemoHeader::backdate"
/// C03-O2 (completeness): final old memo, no cycle heads, durability not decreased => backdating is permitted and
/// (with old.changed_at <= new.changed_at) the new memo's changed_at becomes the old one.
#[kani::proof]
#[kani::unwind(4)]
#[kani::stub(real_catch_unwind, stub_catch_unwind)]
fn c03_o2_backdate_complete() {
    let mut c = any_case();
    c.old_final = true;
    c.new_has_heads = false;
    kani::assume(dur_index(c.new_d) >= dur_index(c.old_d));
    kani::assume(c.old_changed <= c.new_changed);
    let (old, mut new) = build(&c, any_origin_shape());
    assert!(old.can_backdate(&new), "C03: backdating refused although value-equal re-execution is eligible");
    old.backdate(key(3, 0, 0), &mut new);
    assert!(new.changed_at.as_usize() == c.old_changed, "C03: equal value not backdated");
    kani::cover!(c.old_changed < c.new_changed && dur_index(c.new_d) > dur_index(c.old_d));
    std::mem::forget(old);
    std::mem::forget(new);
}

// @verif prop=C01 obl=O4 tier=quick bounds="every pair old.changed_at > new.changed_at" covers=0/1
// @+ encodes="MemoHeader::backdate, report_backdate_violation"
/// C01-O4: in the dev profile, backdating to a *later* revision than the new execution's panics (it would raise changed_at).
#[kani::proof]
#[kani::unwind(4)]
#[kani::should_panic]
#[kani::stub(real_catch_unwind, stub_catch_unwind)]
#[kani::stub(alloc::fmt::format, crate::verif_prelude::stub_format)]
fn c01_o4_backdate_forward_panics() {
    let mut c = any_case();
    c.old_final = true;
    c.new_has_heads = false;
    kani::assume(c.old_changed > c.new_changed);
    let (old, mut new) = build(&c, OriginShape::Derived);
    old.backdate(key(3, 0, 0), &mut new);
    kani::cover!(true, "MUST-BE-UNREACHABLE: backdate raised changed_at without panicking (dev profile)");
    std::mem::forget(old);
    std::mem::forget(new);
}

/// One instantiation of the generic entry point: `VFn` (`Output = u32`, `values_equal` = `==`).
fn backdate_if_appropriate_case(old_value: Option<u32>, new_value: u32, c: &Case) -> (usize, bool) {
    let ing = IngredientImpl::<VFn>::new(crate::zalsa::IngredientIndex::new(3), Default::default(), 0);
    let (old_header, mut new) = build(c, OriginShape::Derived);
    let old = Memo::<VFn> { header: old_header, value: old_value };
    ing.backdate_if_appropriate(&old, key(3, 0, 0), &mut new, &new_value);
    let out = new.changed_at.as_usize();
    std::mem::forget(old);
    std::mem::forget(new);
    std::mem::forget(ing);
    (out, true)
}

// @verif prop=C01,C03 obl=O4 tier=quick bounds="instantiation C = VFn (u32 output, ==); symbolic old value (present/evicted), new value, changed_at pair with old <= new, durabilities, final flag, cycle-head flag"
// @+ encodes="IngredientImpl::<VFn>::backdate_if_appropriate, Memo::value, MemoHeader::can_backdate, MemoHeader::backdate, IngredientImpl::new"
/// C01-O4/C03-O2 through the entry point: changed_at is lowered iff the old value exists and equals the new one and
/// can_backdate holds; otherwise it is left alone.
#[kani::proof]
#[kani::unwind(4)]
#[kani::stub(real_catch_unwind, stub_catch_unwind)]
#[kani::stub(crate::sync::max_parallelism, crate::interned::verif::stub_max_parallelism)]
fn c01_o4_backdate_if_appropriate() {
    let c = any_case();
    kani::assume(c.old_changed <= c.new_changed);
    let old_value: Option<u32> = if kani::any() { Some(kani::any()) } else { None };
    let new_value: u32 = kani::any();
    let (out, _) = backdate_if_appropriate_case(old_value, new_value, &c);
    let eligible = !c.new_has_heads && c.old_final && dur_index(c.new_d) >= dur_index(c.old_d);
    let equal = old_value == Some(new_value);
    if eligible && equal {
        assert!(out == c.old_changed, "C03: equal value was not backdated");
    } else {
        assert!(out == c.new_changed, "C01: changed_at was lowered although the value differs, was evicted, or backdating is not permitted");
    }
    kani::cover!(eligible && equal && c.old_changed < c.new_changed);
    kani::cover!(eligible && !equal && old_value.is_some());
    kani::cover!(eligible && old_value.is_none());
}
