// Shared harness vocabulary. Included by /repo/src/lib.rs as `crate::verif_prelude`
// under `#[cfg(kani)]`. Nothing here replaces logic under test.

/// Alias needed because `std::panic` is both a module and a macro and Kani's stub
/// resolver cannot name `std::panic::catch_unwind` directly.
pub(crate) use std::panic::catch_unwind as real_catch_unwind;

/// Stub for `std::panic::catch_unwind`: Kani compiles with `panic=abort`, so a panic never
/// reaches the catch anyway; the real intrinsic makes the Kani compiler ICE when a TLS
/// destructor registration is reachable (tracing, parking_lot, once_cell).
pub(crate) fn stub_catch_unwind<F: FnOnce() -> R + std::panic::UnwindSafe, R>(
    f: F,
) -> std::thread::Result<R> {
    Ok(f())
}

/// A `ThreadId` from a non-zero integer (verification only; `ThreadId` is a newtype over
/// `NonZeroU64`).
pub(crate) fn tid(n: u64) -> crate::sync::thread::ThreadId {
    assert!(n != 0);
    // SAFETY: verification-only fabrication of a thread id; documented as trusted.
    unsafe { std::mem::transmute::<u64, crate::sync::thread::ThreadId>(n) }
}

pub(crate) fn key(ingredient: u32, index: u32, generation: u32) -> crate::DatabaseKeyIndex {
    // SAFETY: callers assume `index < Id::MAX_U32`.
    let id = unsafe { crate::Id::from_index(index) }.with_generation(generation);
    crate::DatabaseKeyIndex::new(crate::zalsa::IngredientIndex::new(ingredient), id)
}

/// An arbitrary valid database key: ingredient <= 0x7FFF_FFFF, index < Id::MAX_U32, any generation.
pub(crate) fn any_key() -> crate::DatabaseKeyIndex {
    let ingredient: u32 = kani::any();
    let index: u32 = kani::any();
    let generation: u32 = kani::any();
    kani::assume(ingredient <= 0x7FFF_FFFF);
    kani::assume(index < crate::Id::MAX_U32);
    key(ingredient, index, generation)
}

pub(crate) fn dur(d: u8) -> crate::Durability {
    match d {
        0 => crate::Durability::LOW,
        1 => crate::Durability::MEDIUM,
        2 => crate::Durability::HIGH,
        _ => crate::Durability::NEVER_CHANGE,
    }
}

/// Any of the four durabilities.
pub(crate) fn any_durability() -> crate::Durability {
    let d: u8 = kani::any();
    kani::assume(d < 4);
    dur(d)
}

/// Any writable durability (LOW, MEDIUM, HIGH).
pub(crate) fn any_durability3() -> crate::Durability {
    let d: u8 = kani::any();
    kani::assume(d < 3);
    dur(d)
}

pub(crate) fn dur_index(d: crate::Durability) -> u8 {
    if d == crate::Durability::LOW {
        0
    } else if d == crate::Durability::MEDIUM {
        1
    } else if d == crate::Durability::HIGH {
        2
    } else {
        3
    }
}

/// A symbolic revision in `[lo, hi]`.
pub(crate) fn any_revision(lo: usize, hi: usize) -> crate::Revision {
    let r: usize = kani::any();
    kani::assume(lo >= 1 && lo <= r && r <= hi);
    crate::Revision::from(r)
}

/// Upper bound used for symbolic revisions: relative order is what the kernels depend on;
/// the bound keeps `Revision::next` away from its overflow panic.
pub(crate) const REV_MAX: usize = 1 << 40;

/// Stub for `alloc::fmt::format`: formatting panic messages is not the subject of any harness.
pub(crate) fn stub_format(_: std::fmt::Arguments<'_>) -> String {
    String::new()
}

/// A `RawDatabase` that points nowhere, for ingredient entry points that ignore their `db`
/// argument (verification only; `RawDatabase` is `repr(transparent)` over `NonNull<()>`).
pub(crate) fn dangling_raw_db() -> crate::database::RawDatabase<'static> {
    // SAFETY: verification-only fabrication; never dereferenced by the code under test.
    unsafe {
        std::mem::transmute::<std::ptr::NonNull<()>, crate::database::RawDatabase<'static>>(
            std::ptr::NonNull::dangling(),
        )
    }
}

/// Alias + stub for `std::panic::resume_unwind` (used by `Cancelled::throw`): the real one ends in
/// the foreign `__rust_start_panic`, which Kani does not support. It never returns; under Kani's
/// `panic=abort` a plain panic is the same event.
pub(crate) use std::panic::resume_unwind as real_resume_unwind;

pub(crate) fn stub_resume_unwind(_payload: Box<dyn std::any::Any + Send>) -> ! {
    panic!("resume_unwind (salsa cancellation or propagated panic)")
}

/// Stub for salsa's `Condvar::wait` shim in single-handle harnesses: with one handle nothing can ever
/// signal, so reaching a blocking wait is reported as a panic instead of being encoded
/// (parking_lot's parking machinery is far outside what CBMC can decide).
pub(crate) fn stub_condvar_wait<'a, T>(
    _cv: &crate::sync::Condvar,
    _guard: crate::sync::MutexGuard<'a, T>,
) -> crate::sync::MutexGuard<'a, T> {
    panic!("blocking wait reached in a single-handle harness")
}

/// Stub for `Zalsa::event_cold` in harnesses whose `Zalsa` has no event callback: the real function
/// unwraps the (absent) callback, i.e. panics; encoding it drags `Event::new` -> `thread::current()`
/// (thread-local runtime, stderr formatting) into the formula whenever CBMC cannot resolve the
/// `is_some()` test on a heap-allocated `Zalsa` by constant propagation.
pub(crate) fn stub_event_cold(_z: &crate::zalsa::Zalsa, _event: &dyn Fn() -> crate::Event) {
    panic!("event callback invoked although none is installed")
}
