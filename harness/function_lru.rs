// Kani harnesses for /repo/src/function/eviction/lru.rs
// (compiled as `crate::function::eviction::lru::verif`).
// Property: C05 (bounded, least-recently-used eviction; capacity 0 disables).
// Container-backed (hashlink LinkedHashSet): ids concrete, capacity symbolic.

use crate::verif_prelude::*;

fn id(i: u32) -> Id {
    // SAFETY: small index.
    unsafe { Id::from_index(i) }
}

// @verif prop=C05 obl=O1 tier=quick bounds="capacity 0; 2 uses; set_capacity(0) on a policy created with capacity 0"
// @+ encodes="Lru::new, Lru::record_use, Lru::for_each_evicted, Lru::set_capacity"
/// C05-O1: with capacity zero eviction is disabled: nothing is recorded and nothing is evicted.
#[kani::proof]
#[kani::unwind(4)]
#[kani::stub(real_catch_unwind, stub_catch_unwind)]
fn c05_o1_capacity_zero_disables() {
    let mut lru = Lru::new(0);
    lru.record_use(id(0));
    lru.record_use(id(1));
    let mut n = 0;
    lru.for_each_evicted(|_| n += 1);
    assert!(n == 0, "C05: eviction happened with capacity 0");
    lru.set_capacity(0);
    lru.for_each_evicted(|_| n += 1);
    assert!(n == 0);
    std::mem::forget(lru);
}

// @verif prop=NONE obl=O2 tier=thorough bounds="3 concrete ids used in the order 0,1,2,0; symbolic capacity in 1..=3"
// @+ encodes="Lru::new, Lru::record_use, Lru::insert, Lru::for_each_evicted, hashlink::LinkedHashSet::insert/pop_front/len"
/// C05-O2: after eviction at most `capacity` entries remain and the evicted ones are the least recently used, in LRU order.
#[kani::proof]
#[kani::unwind(6)]
#[kani::stub(real_catch_unwind, stub_catch_unwind)]
fn c05_o2_lru_bound_and_order() {
    let cap: usize = kani::any();
    kani::assume(1 <= cap && cap <= 3);
    let mut lru = Lru::new(cap);
    lru.record_use(id(0));
    lru.record_use(id(1));
    lru.record_use(id(2));
    lru.record_use(id(0));
    // recency (least recent first): 1, 2, 0
    let mut evicted = [None, None, None];
    let mut n = 0;
    lru.for_each_evicted(|i| {
        evicted[n] = Some(i);
        n += 1;
    });
    assert!(n == 3 - cap, "C05: number of evicted entries differs from len - capacity");
    assert!(lru.set.get_mut().len() <= cap, "C05: more than `capacity` entries remain after eviction");
    if cap <= 2 {
        assert!(evicted[0] == Some(id(1)), "C05: the evicted entry is not the least recently used");
    }
    if cap == 1 {
        assert!(evicted[1] == Some(id(2)), "C05: eviction order is not least-recently-used first");
    }
    kani::cover!(cap == 1);
    kani::cover!(cap == 3);
    std::mem::forget(lru);
}
