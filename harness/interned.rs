// Kani harnesses for /repo/src/interned.rs (compiled as `crate::interned::verif`).
// Properties: C09 (reclamation only when stale and reclaimable), C07-O2/O3 (generation on reuse),
// C01-O6 (interned read stamp), C23 (LruEntry pointer arithmetic).

use crate::verif_prelude::*;
use crate::zalsa::verif::any_zalsa;

#[derive(Copy, Clone)]
pub(crate) struct VIntS(Id);

impl FromId for VIntS {
    fn from_id(id: Id) -> Self {
        VIntS(id)
    }
}

impl AsId for VIntS {
    fn as_id(&self) -> Id {
        self.0
    }
}

/// A hand-written interned struct over one `u32` with `revisions = R` (stands in for macro output).
pub(crate) struct VInt<const R: usize>;

// SAFETY: the fields type is `u32` for every `'db`.
unsafe impl<const R: usize> Configuration for VInt<R> {
    const LOCATION: crate::ingredient::Location = crate::ingredient::Location { file: "", line: 0 };
    const DEBUG_NAME: &'static str = "VInt";
    const PERSIST: bool = false;
    const REVISIONS: NonZeroUsize = NonZeroUsize::new(R).unwrap();
    type Fields<'db> = u32;
    type Struct<'db> = VIntS;

    fn serialize<S>(_: &Self::Fields<'_>, _: S) -> Result<S::Ok, S::Error>
    where
        S: plumbing::serde::Serializer,
    {
        unimplemented!()
    }

    fn deserialize<'de, D>(_: D) -> Result<Self::Fields<'static>, D::Error>
    where
        D: plumbing::serde::Deserializer<'de>,
    {
        unimplemented!()
    }
}

pub(crate) fn stub_max_parallelism() -> usize {
    1
}

// ---------------------------------------------------------------------------------------------
// C09-O1: RevisionQueue against a reference retention model
// ---------------------------------------------------------------------------------------------

/// Record `K` symbolic non-decreasing revisions (all > R1: R1 is the sentinel the queue starts with and is
/// never recorded by a real database, whose first interning happens at a current revision >= R1... see below)
/// and compare `is_primed` / `is_stale` with the reference "oldest of the last REVS distinct recorded revisions".
fn revision_queue_case<const REVS: usize, const K: usize>() {
    let q = RevisionQueue::new(NonZeroUsize::new(REVS).unwrap());
    assert!(!q.is_primed(), "C09: a fresh queue is primed");
    let mut recorded = [0usize; K];
    let mut prev = 1usize;
    let mut i = 0;
    while i < K {
        let r: usize = kani::any();
        // revisions are recorded in non-decreasing order (the current revision only grows);
        // R1 itself may be recorded too (interning in the very first revision): it is a no-op.
        kani::assume(prev <= r && r < 1_000_000);
        q.record(Revision::from(r));
        recorded[i] = r;
        prev = r;
        i += 1;
    }
    // reference: distinct recorded revisions > R1, newest first
    let mut distinct = [0usize; K];
    let mut n = 0;
    let mut i = K;
    while i > 0 {
        i -= 1;
        let v = recorded[i];
        if v > 1 && (n == 0 || distinct[n - 1] != v) {
            distinct[n] = v;
            n += 1;
        }
    }
    let primed = n >= REVS;
    assert!(q.is_primed() == primed, "C09: priming differs from 'REVS distinct revisions recorded'");
    let x: usize = kani::any();
    kani::assume(1 <= x && x < 1_000_000);
    let stale = q.is_stale(Revision::from(x));
    if stale {
        assert!(primed, "C09: a value was judged stale before REVS revisions using the type occurred");
        assert!(x < distinct[REVS - 1], "C09: a value interned within the last REVS active revisions was judged stale");
    }
    // (that an old enough value *is* judged stale is not demanded by C09 -- a collector that keeps more is fine --
    // it only appears as a reachability witness below)
    // input-space witnesses: a probe that the reference model allows to be stale / requires to be live
    kani::cover!(primed && x < distinct[REVS - 1]);
    kani::cover!(primed && x >= distinct[REVS - 1]);
    kani::cover!(!primed && n > 0 || REVS == 1);
    std::mem::forget(q);
}

// @verif prop=C09 obl=O1 tier=quick bounds="REVS = 1; 3 recorded symbolic non-decreasing revisions < 10^6 (gaps free); symbolic probe revision"
// @+ encodes="RevisionQueue::new, RevisionQueue::record, RevisionQueue::record_cold, RevisionQueue::is_stale, RevisionQueue::is_primed"
/// C09-O1 (REVS = 1): stale iff primed and older than the most recent active revision.
#[kani::proof]
#[kani::unwind(6)]
#[kani::stub(real_catch_unwind, stub_catch_unwind)]
fn c09_o1_revision_queue_revs1() {
    revision_queue_case::<1, 3>();
}

// @verif prop=C09 obl=O1 tier=quick bounds="REVS = 2; 4 recorded symbolic non-decreasing revisions < 10^6; symbolic probe revision"
// @+ encodes="RevisionQueue::new, RevisionQueue::record, RevisionQueue::record_cold, RevisionQueue::is_stale, RevisionQueue::is_primed"
/// C09-O1 (REVS = 2).
#[kani::proof]
#[kani::unwind(7)]
#[kani::stub(real_catch_unwind, stub_catch_unwind)]
fn c09_o1_revision_queue_revs2() {
    revision_queue_case::<2, 4>();
}

// @verif prop=C09 obl=O1 tier=quick bounds="REVS = 3 (the default); 4 recorded symbolic non-decreasing revisions < 10^6; symbolic probe revision"
// @+ encodes="RevisionQueue::new, RevisionQueue::record, RevisionQueue::record_cold, RevisionQueue::is_stale, RevisionQueue::is_primed"
/// C09-O1 (REVS = 3, the default).
#[kani::proof]
#[kani::unwind(7)]
#[kani::stub(real_catch_unwind, stub_catch_unwind)]
fn c09_o1_revision_queue_revs3() {
    revision_queue_case::<3, 4>();
}

// @verif prop=C09 obl=O1 tier=thorough bounds="REVS = 3; 6 recorded symbolic non-decreasing revisions < 10^6; symbolic probe revision"
// @+ encodes="RevisionQueue::new, RevisionQueue::record, RevisionQueue::record_cold, RevisionQueue::is_stale, RevisionQueue::is_primed"
/// C09-O1 (REVS = 3, longer histories).
#[kani::proof]
#[kani::unwind(9)]
#[kani::stub(real_catch_unwind, stub_catch_unwind)]
fn c09_o1_revision_queue_revs3_k6() {
    revision_queue_case::<3, 6>();
}

// @verif prop=C09 obl=O1 tier=thorough bounds="REVS = 4 (above the inline capacity: heap-backed SmallVec); 5 recorded revisions"
// @+ encodes="RevisionQueue::new, RevisionQueue::record, RevisionQueue::record_cold, RevisionQueue::is_stale, RevisionQueue::is_primed"
/// C09-O1 (REVS = 4, spilled queue).
#[kani::proof]
#[kani::unwind(8)]
#[kani::stub(real_catch_unwind, stub_catch_unwind)]
fn c09_o1_revision_queue_revs4() {
    revision_queue_case::<4, 5>();
}

// @verif prop=C09 obl=O1 tier=quick bounds="IMMORTAL queue (revisions = usize::MAX); every probe revision"
// @+ encodes="RevisionQueue::new, RevisionQueue::is_stale, RevisionQueue::is_primed"
/// C09-O1: a type that disables collection never judges anything stale and is never primed.
#[kani::proof]
#[kani::unwind(4)]
#[kani::stub(real_catch_unwind, stub_catch_unwind)]
fn c09_o1_revision_queue_immortal() {
    let q = RevisionQueue::new(IMMORTAL);
    let x: usize = kani::any();
    kani::assume(x >= 1);
    assert!(!q.is_stale(Revision::from(x)), "C09: a non-collectable type judged a value stale");
    assert!(!q.is_primed());
    std::mem::forget(q);
}

// @verif prop=C09 obl=O2 tier=quick bounds="all 4 durabilities x REVS in {1, 3, usize::MAX}"
// @+ encodes="is_reusable::<VInt<1>>, is_reusable::<VInt<3>>, is_reusable::<VInt<{usize::MAX}>>"
/// C09-O2: a value is reclaimable iff it was only interned under LOW durability and its type does not disable collection.
#[kani::proof]
fn c09_o2_is_reusable() {
    let d = any_durability();
    let low = d == Durability::LOW;
    // soundness direction only: reclaimable => interned under LOW durability
    assert!(!is_reusable::<VInt<1>>(d) || low, "C09: a value interned under a durability above LOW is reclaimable");
    assert!(!is_reusable::<VInt<3>>(d) || low, "C09: a value interned under a durability above LOW is reclaimable");
    assert!(!is_reusable::<VInt<{ usize::MAX }>>(d), "C09: a type that disables collection is reusable");
    kani::cover!(low && is_reusable::<VInt<3>>(d));
    kani::cover!(!low);
}

// ---------------------------------------------------------------------------------------------
// C01-O6: what reading an interned value records in the reader
// ---------------------------------------------------------------------------------------------

fn interned_read_case<const R: usize>(d: Durability) {
    let local = ZalsaLocal::new();
    let guard = local.push_query(key(3, 0, 0));
    let now: usize = kani::any();
    kani::assume(1 <= now && now < REV_MAX);
    let prior: usize = kani::any();
    kani::assume(1 <= prior && prior <= now);
    local.report_tracked_read_revision(Revision::from(prior));
    report_tracked_read_if_reusable::<VInt<R>>(&local, key(5, 0, 0), Revision::from(now), d);
    match local.active_query() {
        Some((_, stamp)) => {
            assert!(stamp.changed_at.as_usize() == now, "C01: interned read did not raise the reader's changed_at to now");
            assert!(stamp.durability == Durability::NEVER_CHANGE, "C03: non-reusable interned read lowered the reader's durability");
        }
        None => panic!(),
    }
    kani::cover!(prior < now);
    std::mem::forget(guard);
    std::mem::forget(local);
}

// @verif prop=C01,C09,C03 obl=O6 tier=quick bounds="type with collection disabled (revisions = usize::MAX), every durability (symbolic); symbolic current revision < 2^40 and prior reader stamp"
// @+ encodes="report_tracked_read_if_reusable::<VInt<{usize::MAX}>>, is_reusable, ZalsaLocal::report_tracked_read_revision, ZalsaLocal::push_query, ZalsaLocal::active_query"
/// C01-O6: reading a non-reusable interned value still raises the reader's changed_at to the current revision
/// (its id may be the product of an earlier reuse) and does not lower the reader's durability (immortal type).
#[kani::proof]
#[kani::unwind(4)]
#[kani::stub(real_catch_unwind, stub_catch_unwind)]
fn c01_o6_interned_read_immortal() {
    interned_read_case::<{ usize::MAX }>(any_durability());
}

// @verif prop=C01,C09,C03 obl=O6 tier=quick bounds="collectable type (revisions = 3) with each of the durabilities MEDIUM, HIGH, NEVER_CHANGE (enumerated concretely: a symbolic durability drags the edge-recording hash set into the formula)"
// @+ encodes="report_tracked_read_if_reusable::<VInt<3>>, is_reusable, ZalsaLocal::report_tracked_read_revision"
/// C01-O6: the same for values of a collectable type interned under a durability above LOW.
#[kani::proof]
#[kani::unwind(4)]
#[kani::stub(real_catch_unwind, stub_catch_unwind)]
fn c01_o6_interned_read_durable() {
    interned_read_case::<3>(Durability::MEDIUM);
    interned_read_case::<3>(Durability::HIGH);
    interned_read_case::<3>(Durability::NEVER_CHANGE);
}

// ---------------------------------------------------------------------------------------------
// C07-O2 / C09-O4: re-validation of an interned value (page-backed, no hashing)
// ---------------------------------------------------------------------------------------------

fn value_of<const R: usize>(id: Id, last_interned_at: usize, d: Durability, types: &Arc<MemoTableTypes>) -> Value<VInt<R>> {
    Value::<VInt<R>> {
        shard: 0,
        lru: LruEntry {
            link: LinkedListLink::new(),
            metadata: UnsafeCell::new(EntryMetadata { id, last_interned_at: Revision::from(last_interned_at) }),
        },
        fields: UnsafeCell::new(7u32),
        // SAFETY: only accessed through this ingredient's memo table types.
        memos: UnsafeCell::new(unsafe { MemoTable::new(types) }),
        durability: UnsafeCell::new(d),
    }
}

// @verif prop=C07,C09,C03 obl=O2 tier=quick bounds="one page-backed interned value (REVS = 3); symbolic stored and queried generation (full u32), symbolic last_interned_at <= now, arbitrary INV runtime state"
// @+ encodes="interned::IngredientImpl::<VInt<3>>::maybe_changed_after, IngredientImpl::new, new_shards, RevisionQueue::record, Table::get, Table::push_page, PageView::allocate, Id::generation"
/// C07-O2/C09-O4: a dependency on an interned id is reported Changed iff the slot's generation has moved past the
/// id's (the slot was reused); otherwise the value is re-validated: last_interned_at := now, so it is not stale now.
#[kani::proof]
#[kani::unwind(7)]
#[kani::stub(real_catch_unwind, stub_catch_unwind)]
#[kani::stub(crate::sync::max_parallelism, stub_max_parallelism)]
fn c07_o2_interned_generation_check() {
    let (zalsa, revs) = any_zalsa();
    let now = revs[0];
    let ing = IngredientImpl::<VInt<3>>::new(IngredientIndex::new(0));
    let page = zalsa.table().push_page::<Value<VInt<3>>>(IngredientIndex::new(0), ing.memo_table_types.clone());
    let stored_gen: u32 = kani::any();
    let asked_gen: u32 = kani::any();
    let last: usize = kani::any();
    kani::assume(1 <= last && last <= now);
    let types = ing.memo_table_types.clone();
    // SAFETY: single-threaded; we are the unique writer of the page.
    let id0 = match unsafe {
        zalsa.table().page::<Value<VInt<3>>>(page).allocate(page, |id| value_of::<3>(id.with_generation(stored_gen), last, Durability::LOW, &types))
    } {
        Ok((id, _)) => id,
        Err(_) => panic!("fresh page is full"),
    };
    let asked = id0.with_generation(asked_gen);
    // SAFETY: the interned ingredient ignores its database argument.
    let res = unsafe { ing.maybe_changed_after(&zalsa, dangling_raw_db(), asked, Revision::from(1)) };
    let value: &Value<VInt<3>> = zalsa.table().get(id0);
    // SAFETY: single-threaded.
    let meta = unsafe { *value.lru.metadata.get() };
    if stored_gen > asked_gen {
        assert!(!res.is_unchanged(), "C07: a dependency on a reclaimed interned id was reported unchanged");
    } else {
        assert!(res.is_unchanged(), "C03: a live interned id was reported changed");
        assert!(meta.last_interned_at.as_usize() == now, "C09: revalidated value not marked as interned in this revision");
        assert!(!ing.revision_queue.is_stale(meta.last_interned_at), "C09: a value revalidated in this revision is stale");
    }
    assert!(meta.id.generation() == stored_gen);
    kani::cover!(stored_gen > asked_gen);
    kani::cover!(stored_gen == asked_gen && last < now);
    std::mem::forget(ing);
    std::mem::forget(zalsa);
}

// ---------------------------------------------------------------------------------------------
// C09-O3 / C07-O3: the LRU tail scan that hands out a slot for reuse
// ---------------------------------------------------------------------------------------------

fn lru_scan_case<const N: usize>() {
    let ing = IngredientImpl::<VInt<1>>::new(IngredientIndex::new(0));
    // symbolic queue state: REVS = 1, so "oldest" is the single recorded revision
    let recorded: usize = kani::any();
    kani::assume(1 <= recorded && recorded < 1_000_000);
    ing.revision_queue.record(Revision::from(recorded));
    let now: usize = kani::any();
    kani::assume(recorded <= now && now < 1_000_000);
    let types = ing.memo_table_types.clone();
    let mut lasts = [0usize; N];
    let mut gens = [0u32; N];
    let mut i = 0;
    while i < N {
        lasts[i] = kani::any();
        kani::assume(1 <= lasts[i] && lasts[i] <= now);
        // LRU order invariant: the list is ordered by recency, tail (index N-1) least recent
        if i > 0 {
            kani::assume(lasts[i] <= lasts[i - 1]);
        }
        gens[i] = kani::any();
        i += 1;
    }
    let values: [Value<VInt<1>>; N] = core::array::from_fn(|i| {
        // SAFETY: index < Id::MAX_U32.
        value_of::<1>(unsafe { Id::from_index(i as u32) }.with_generation(gens[i]), lasts[i], Durability::LOW, &types)
    });
    let mut shard = IngredientShard::default();
    let mut i = 0;
    while i < N {
        // SAFETY: the values outlive the shard (both are forgotten at the end of the harness).
        unsafe { shard.lru.push_back(UnsafeRef::from_raw(LruEntry::ptr_from_value(&values[i]))) };
        i += 1;
    }
    // the scan's own debug assertion requires that stale entries were not touched in this revision
    // SAFETY: we "hold the lock" (single-threaded) and all entries are live.
    let found = unsafe { ing.find_reusable_slot(Revision::from(now), &mut shard) };
    let tail_stale = recorded > 1 && lasts[N - 1] < recorded;
    match found {
        None => {
            // nothing handed out (that a stale tail *is* offered is not demanded by C09)
            let _ = tail_stale;
        }
        Some((ref slot, value)) => {
            // SAFETY: single-threaded.
            let meta = unsafe { *value.lru.metadata.get() };
            assert!(recorded > 1, "C09: a slot was reclaimed before REVS revisions using the type occurred");
            assert!(meta.last_interned_at.as_usize() < recorded, "C09: a slot interned within the last REVS active revisions was reclaimed");
            assert!(meta.last_interned_at.as_usize() < now, "C09: a slot interned in the current revision was reclaimed");
            assert!(slot.old_id == meta.id);
            assert!(slot.new_id.index() == slot.old_id.index(), "C07: reuse changed the slot");
            assert!(slot.old_id.generation() != u32::MAX, "C07: a slot at the maximum generation was reused");
            assert!(slot.new_id.generation() == slot.old_id.generation() + 1, "C07: reuse did not advance the generation by one");
            assert!(std::ptr::eq(slot.entry, LruEntry::ptr_from_value(value)));
        }
    }
    kani::cover!(tail_stale && gens[N - 1] != u32::MAX);
    kani::cover!(!tail_stale && recorded > 1);
    std::mem::forget(shard);
    std::mem::forget(values);
    std::mem::forget(ing);
}

// @verif prop=C09,C07 obl=O3 tier=quick bounds="LRU list of 1 stack-allocated value; symbolic last_interned_at <= now, generation (full u32), queue state (REVS = 1) and current revision < 10^6"
// @+ encodes="interned::IngredientImpl::<VInt<1>>::find_reusable_slot, RevisionQueue::is_stale, Id::next_generation, LruEntry::ptr_from_value, LruEntry::value_from_ptr, intrusive LinkedList cursor (back_mut, remove)"
/// C09-O3/C07-O3: the LRU scan offers a slot only if it is stale w.r.t. the queue and not touched in this revision;
/// the offered id is the same slot with generation + 1; a slot at u32::MAX is never offered.
#[kani::proof]
#[kani::unwind(7)]
#[kani::stub(real_catch_unwind, stub_catch_unwind)]
#[kani::stub(crate::sync::max_parallelism, stub_max_parallelism)]
fn c09_o3_lru_scan_1() {
    lru_scan_case::<1>();
}

// @verif prop=C09,C07 obl=O3 tier=thorough bounds="LRU list of 2 stack-allocated values ordered by recency; otherwise as c09_o3_lru_scan_1"
// @+ encodes="interned::IngredientImpl::<VInt<1>>::find_reusable_slot, RevisionQueue::is_stale, Id::next_generation, LruEntry::ptr_from_value, LruEntry::value_from_ptr"
/// C09-O3/C07-O3 with two entries (skip-and-unlink of a u32::MAX tail is reachable).
#[kani::proof]
#[kani::unwind(8)]
#[kani::stub(real_catch_unwind, stub_catch_unwind)]
#[kani::stub(crate::sync::max_parallelism, stub_max_parallelism)]
fn c09_o3_lru_scan_2() {
    lru_scan_case::<2>();
}

// @verif prop=C23 obl=O2 tier=quick bounds="one stack-allocated value"
// @+ encodes="LruEntry::ptr_from_value, LruEntry::value_from_ptr"
/// C23: the LRU entry pointer round trip stays inside the value (CBMC pointer checks) and recovers the same value.
#[kani::proof]
#[kani::unwind(4)]
#[kani::stub(real_catch_unwind, stub_catch_unwind)]
fn c23_o2_lru_entry_pointer_roundtrip() {
    let types = Arc::new(MemoTableTypes::default());
    // SAFETY: index < Id::MAX_U32.
    let v = value_of::<3>(unsafe { Id::from_index(4) }, 1, Durability::LOW, &types);
    let p = LruEntry::ptr_from_value(&v);
    // SAFETY: `p` was produced by `ptr_from_value` for the same configuration and `v` is live.
    let back: &Value<VInt<3>> = unsafe { LruEntry::value_from_ptr::<VInt<3>>(p) };
    assert!(std::ptr::eq(back, &v));
    // SAFETY: single-threaded.
    assert!(unsafe { (*back.lru.metadata.get()).id.index() } == 4);
    assert!(unsafe { *back.fields.get() } == 7);
    std::mem::forget(v);
}

// ---------------------------------------------------------------------------------------------
// C07-O6 / C09-O5: the slot-reuse branch of `intern_id` (hashbrown-backed; stretch harnesses)
// ---------------------------------------------------------------------------------------------

/// One stale, reclaimable value (data 7) is interned and sits in the LRU; the collector is primed; then a query whose
/// stamp durability is `reader_low ? LOW : NEVER_CHANGE` interns different data (9), which takes the reuse branch.
fn intern_reuse_case(reader_low: bool) {
    let (zalsa, revs) = any_zalsa();
    let now = revs[0];
    let ing = IngredientImpl::<VInt<1>>::new(IngredientIndex::new(0));
    let new_key: u32 = 9;
    let old_data: u32 = 7;
    let h_new = ing.hasher.hash_one(&new_key);
    let h_old = ing.hasher.hash_one(&old_data);
    let shard_index = ing.shard(h_new);
    // symbolic history: queue primed at `recorded`, old value last interned before that
    let recorded: usize = kani::any();
    let last: usize = kani::any();
    kani::assume(2 <= recorded && recorded <= now && 1 <= last && last < recorded);
    ing.revision_queue.record(Revision::from(recorded));
    let generation: u32 = kani::any();
    kani::assume(generation != u32::MAX);
    let page = zalsa.table().push_page::<Value<VInt<1>>>(IngredientIndex::new(0), ing.memo_table_types.clone());
    let types = ing.memo_table_types.clone();
    // SAFETY: single-threaded; we are the unique writer of the page.
    let id0 = match unsafe {
        zalsa.table().page::<Value<VInt<1>>>(page).allocate(page, |id| {
            let mut v = value_of::<1>(id.with_generation(generation), last, Durability::LOW, &types);
            v.shard = shard_index as u16;
            v
        })
    } {
        Ok((id, _)) => id,
        Err(_) => panic!("fresh page is full"),
    };
    {
        let value: &Value<VInt<1>> = zalsa.table().get(id0);
        let mut shard = ing.shards[shard_index].lock();
        // SAFETY: we hold the shard lock and `value` is a live, stable value of this ingredient.
        unsafe { ing.insert_value(&mut shard, h_old, value) };
    }
    let local = ZalsaLocal::new();
    let guard = local.push_query(key(3, 0, 0));
    if reader_low {
        local.report_untracked_read(Revision::from(now)); // forces the reader's stamp to (LOW, now)
    }
    let got = ing.intern_id(&zalsa, &local, new_key, |_id, k| k);
    // --- the reuse branch must have been taken: same slot, next generation
    kani::cover!(got.index() == id0.index());
    if got.index() != id0.index() {
        // (that the stale slot *is* reused is not demanded by C09; nothing further to check on this path)
        std::mem::forget(guard);
        std::mem::forget(local);
        std::mem::forget(ing);
        std::mem::forget(zalsa);
        return;
    }
    assert!(got.generation() == generation + 1, "C07: a reused interned slot kept its generation");
    let value: &Value<VInt<1>> = zalsa.table().get(id0);
    // SAFETY: single-threaded.
    let (meta, data, dur) = unsafe { (*value.lru.metadata.get(), *value.fields.get(), *value.durability.get()) };
    assert!(data == new_key, "C08/C07: the reused slot does not hold the newly interned data");
    assert!(meta.id == got, "C07: slot metadata does not carry the new id");
    assert!(meta.last_interned_at.as_usize() == now, "C09: reused value not marked as interned in this revision");
    let expect_d = if reader_low { Durability::LOW } else { Durability::NEVER_CHANGE };
    assert!(dur == expect_d, "C09: the value's durability is not the interning query's durability");
    {
        let shard = ing.shards[shard_index].lock();
        let in_lru = !shard.lru.is_empty();
        assert!(in_lru == reader_low, "C09: a value interned by a non-LOW query stayed reclaimable (in the LRU), or a LOW one left it");
    }
    // --- what the interning query recorded
    // SAFETY: no reentrant access to the query stack.
    let new_key_index = ing.database_key_index(got);
    let (has_edge, stamp) = unsafe {
        local.with_query_stack_unchecked(move |stack| {
            let q = stack.last().unwrap();
            (crate::active_query::verif::frame_has_input_edge(q, new_key_index), q.stamp())
        })
    };
    assert!(stamp.changed_at.as_usize() == now, "C01: interning did not raise the reader's changed_at to now");
    if reader_low {
        assert!(has_edge, "C07: no dependency edge on a reclaimable interned value was recorded (a later reclaim would go unnoticed)");
    }
    kani::cover!(generation == 0);
    kani::cover!(last + 1 < recorded && recorded < now);
    std::mem::forget(guard);
    std::mem::forget(local);
    std::mem::forget(ing);
    std::mem::forget(zalsa);
}

// @verif prop=NONE obl=O6 tier=thorough bounds="PROBE, no verdict within 3 h (hashbrown-backed): one stale LOW value (concrete data 7) in one shard, collector primed (REVS = 1) at a symbolic revision, symbolic stored generation < u32::MAX and revisions; a reader with NEVER_CHANGE stamp interns concrete data 9"
// @+ encodes="interned::IngredientImpl::<VInt<1>>::intern_id (reuse branch), IngredientImpl::insert_value, find_reusable_slot, hashbrown HashTable::find/reserve/find_entry/remove/insert_unique, report_tracked_read_if_reusable, IngredientImpl::clear_memos, intrusive LinkedList push_front/remove"
/// C09-O5/C07-O6: reuse through the real `intern_id` by a durable (non-LOW) query: the slot gets generation + 1, the new
/// data and the query's durability, and is **not** left in the LRU (so it can never be reclaimed).
#[kani::proof]
#[kani::unwind(9)]
#[kani::stub(real_catch_unwind, stub_catch_unwind)]
#[kani::stub(crate::sync::max_parallelism, stub_max_parallelism)]
fn c09_o5_intern_reuse_by_durable_query() {
    intern_reuse_case(false);
}

// @verif prop=NONE obl=O6 tier=thorough bounds="PROBE, no verdict within 3 h (hashbrown- and indexmap-backed): as c09_o5_intern_reuse_by_durable_query with a reader whose stamp is (LOW, now)"
// @+ encodes="interned::IngredientImpl::<VInt<1>>::intern_id (reuse branch), report_tracked_read_if_reusable, ZalsaLocal::report_tracked_read_simple, ActiveQuery::add_read_simple (FxIndexSet insert)"
/// C07-O6: reuse by a LOW query: additionally the value stays reclaimable (in the LRU) and the interning query records a
/// dependency edge on the *new* id, so that a later reclaim invalidates it.
#[kani::proof]
#[kani::unwind(9)]
#[kani::stub(real_catch_unwind, stub_catch_unwind)]
#[kani::stub(crate::sync::max_parallelism, stub_max_parallelism)]
fn c07_o6_intern_reuse_by_low_query() {
    intern_reuse_case(true);
}
