// Kani harnesses for /repo/src/id.rs (compiled as `crate::id::verif`).
// Properties: C07-O1 (id bit arithmetic: generations distinguish reuses of a slot).

use crate::verif_prelude::*;

fn any_id() -> Id {
    let index: u32 = kani::any();
    kani::assume(index < Id::MAX_U32);
    // SAFETY: index < Id::MAX_U32.
    unsafe { Id::from_index(index) }.with_generation(kani::any())
}

// @verif prop=C07,C24 obl=O1 tier=quick bounds="all values: every valid (index < Id::MAX_U32, generation) pair, two ids"
// @+ encodes="Id::from_index, Id::with_generation, Id::index, Id::generation, Id::as_bits, Id::from_bits, Id::from_bits_unchecked, Id::eq"
/// C07-O1: ids are exactly their (slot index, generation) pair: accessors read back what was put in, the 64-bit
/// encoding is injective and round-trips, and two ids are equal iff both components agree.
#[kani::proof]
fn c07_o1_id_bits() {
    let index: u32 = kani::any();
    let generation: u32 = kani::any();
    kani::assume(index < Id::MAX_U32);
    // SAFETY: index < Id::MAX_U32.
    let a = unsafe { Id::from_index(index) }.with_generation(generation);
    assert!(a.index() == index && a.generation() == generation);
    // SAFETY: index < Id::MAX_U32.
    assert!(unsafe { Id::from_index(index) }.generation() == 0);
    let bits = a.as_bits();
    assert!(Id::from_bits(bits) == a, "C07: id does not round-trip through its bit encoding");
    // SAFETY: `bits` came from `as_bits`.
    assert!(unsafe { Id::from_bits_unchecked(bits) } == a);
    let b = any_id();
    let same = b.index() == index && b.generation() == generation;
    assert!((a == b) == same, "C07: id equality ignores the slot or the generation");
    assert!((a.as_bits() == b.as_bits()) == same, "C07: id bit encoding is not injective");
    kani::cover!(index == Id::MAX_U32 - 1 && generation == u32::MAX);
    kani::cover!(a != b && a.index() == b.index());
}

// @verif prop=C07 obl=O1 tier=quick bounds="all values: every valid id"
// @+ encodes="Id::next_generation, Id::with_generation"
/// C07-O1: next_generation keeps the slot, advances the generation by exactly one, never equals the old id, and is
/// None exactly at u32::MAX (so a generation can never wrap around to alias an older id).
#[kani::proof]
fn c07_o1_next_generation() {
    let a = any_id();
    match a.next_generation() {
        Some(n) => {
            assert!(a.generation() != u32::MAX, "C07: generation wrapped");
            assert!(n.index() == a.index(), "C07: next_generation changed the slot");
            assert!(n.generation() == a.generation() + 1, "C07: next_generation did not advance by one");
            assert!(n != a, "C07: next generation aliases the old id");
            assert!(n > a || n.index() == a.index());
        }
        None => { assert!(a.generation() == u32::MAX, "C07: next_generation refused before the maximum") }
    }
    kani::cover!(a.generation() == u32::MAX);
    kani::cover!(a.generation() == u32::MAX - 1);
}

// @verif prop=C07 obl=O1 tier=quick bounds="all values: two valid database keys"
// @+ encodes="DatabaseKeyIndex::new, DatabaseKeyIndex::eq, DatabaseKeyIndex::key_index, DatabaseKeyIndex::ingredient_index"
/// C07-O1: database keys (what dependency edges and memo ownership are keyed by) distinguish generations.
#[kani::proof]
fn c07_o1_database_key_distinguishes_generations() {
    let a = any_key();
    let b = any_key();
    let same = a.ingredient_index().as_u32() == b.ingredient_index().as_u32()
        && a.key_index().index() == b.key_index().index()
        && a.key_index().generation() == b.key_index().generation();
    assert!((a == b) == same, "C07: database key equality ignores a component");
    kani::cover!(!same && a.key_index().index() == b.key_index().index() && a.ingredient_index() == b.ingredient_index());
}
