// Kani harnesses for /repo/src/tracked_struct.rs (compiled as `crate::tracked_struct::verif`).
// Properties: C06 (identity survives re-creation), C07-O4 (recycled ids get a new generation),
// C03-O3 / C01-O3 (per-field revisions of tracked structs).

use crate::verif_prelude::*;
use crate::runtime::Stamp;
use crate::zalsa::verif::any_zalsa;

#[derive(Copy, Clone)]
pub(crate) struct VTrS(Id);

impl FromId for VTrS {
    fn from_id(id: Id) -> Self {
        VTrS(id)
    }
}

impl AsId for VTrS {
    fn as_id(&self) -> Id {
        self.0
    }
}

/// A hand-written tracked struct with one identity field (`.0`) and one tracked field (`.1`),
/// written the way `setup_tracked_struct!` expands (same `update_fields` shape, `==` equality).
pub(crate) struct VTr;

// SAFETY: the fields type is `(u32, u32)` for every `'db`.
unsafe impl Configuration for VTr {
    const LOCATION: crate::ingredient::Location = crate::ingredient::Location { file: "", line: 0 };
    const DEBUG_NAME: &'static str = "VTr";
    const TRACKED_FIELD_NAMES: &'static [&'static str] = &["t"];
    const TRACKED_FIELD_INDICES: &'static [usize] = &[1];
    const PERSIST: bool = false;
    type Fields<'db> = (u32, u32);
    type Revisions = [AtomicRevision; 1];
    type Struct<'db> = VTrS;

    fn untracked_fields(fields: &Self::Fields<'_>) -> impl Hash {
        fields.0
    }

    fn new_revisions(current_revision: Revision) -> Self::Revisions {
        std::array::from_fn(|_| AtomicRevision::new(current_revision))
    }

    fn update_fields<'db>(
        current_revision: Revision,
        revisions: &Self::Revisions,
        old_fields: &mut Self::Fields<'db>,
        new_fields: Self::Fields<'db>,
    ) -> bool {
        if update_field(&mut old_fields.1, new_fields.1, |a, b| a == b) {
            revisions[0].store(current_revision);
        }
        update_field(&mut old_fields.0, new_fields.0, |a, b| a == b) | false
    }

    fn serialize<S>(_: &Self::Fields<'_>, _: S) -> Result<S::Ok, S::Error>
    where
        S: plumbing::serde::Serializer,
    {
        unimplemented!()
    }

    fn deserialize<'de, D>(_: D) -> Result<Self::Fields<'static>, D::Error>
    where
        D: plumbing::serde::Deserializer<'de>,
    {
        unimplemented!()
    }
}

// ---------------------------------------------------------------------------------------------
// C06-O1 / C03-O3 leaf kernels
// ---------------------------------------------------------------------------------------------

// @verif prop=C06 obl=O1 tier=quick bounds="all values: two identities with arbitrary (ingredient <= 0x7FFF_FFFF, 64-bit hash, 32-bit disambiguator)"
// @+ encodes="Identity::eq, Identity::cmp, IdentityHash::eq, Identity::ingredient_index"
/// C06-O1: two identities are equal iff ingredient, hash and disambiguator all agree, so structs created by
/// different struct types, with different identity values or at different per-identity positions are distinct.
#[kani::proof]
fn c06_o1_identity_equality() {
    let (i1, h1, d1): (u32, u64, u32) = (kani::any(), kani::any(), kani::any());
    let (i2, h2, d2): (u32, u64, u32) = (kani::any(), kani::any(), kani::any());
    kani::assume(i1 <= 0x7FFF_FFFF && i2 <= 0x7FFF_FFFF);
    let a = Identity { ingredient_index: IngredientIndex::new(i1), hash: h1, disambiguator: Disambiguator(d1) };
    let b = Identity { ingredient_index: IngredientIndex::new(i2), hash: h2, disambiguator: Disambiguator(d2) };
    let same = i1 == i2 && h1 == h2 && d1 == d2;
    assert!((a == b) == same, "C06: identity equality ignores a component");
    assert!((a.cmp(&b) == std::cmp::Ordering::Equal) == same);
    let ha = IdentityHash { ingredient_index: IngredientIndex::new(i1), hash: h1 };
    let hb = IdentityHash { ingredient_index: IngredientIndex::new(i2), hash: h2 };
    assert!((ha == hb) == (i1 == i2 && h1 == h2), "C06: identity-hash equality ignores a component");
    assert!(a.ingredient_index().as_u32() == i1);
    kani::cover!(i1 == i2 && h1 == h2 && d1 != d2);
    kani::cover!(same);
}

// @verif prop=C03,C01 obl=O3 tier=quick bounds="all values: T = u32 with == ; every old/new pair"
// @+ encodes="tracked_struct::update_field::<u32>"
/// C03-O3: a recreated field keeps its old value and reports 'unchanged' iff the values are equal; otherwise it is replaced and reports 'changed'.
#[kani::proof]
fn c03_o3_update_field() {
    let old: u32 = kani::any();
    let new: u32 = kani::any();
    let mut slot = old;
    let changed = update_field(&mut slot, new, |a, b| a == b);
    assert!(changed == (old != new), "C03/C01: update_field reports the wrong change status");
    assert!(slot == new, "C01: field does not hold the new value");
    // a `no_eq` field: always considered changed, always replaced
    let mut slot2 = old;
    assert!(update_field(&mut slot2, new, |_, _| false));
    assert!(slot2 == new);
    kani::cover!(old == new);
    kani::cover!(old != new);
}

// ---------------------------------------------------------------------------------------------
// page-backed kernels
// ---------------------------------------------------------------------------------------------

struct World {
    zalsa: Zalsa,
    ing: IngredientImpl<VTr>,
    id: Id,
    now: usize,
}

/// An ingredient-free `Zalsa` (arbitrary INV runtime state) whose table holds one page of `Value<VTr>` with one
/// allocated struct `fields`, created/updated in `updated_at`, durability `d`, tracked-field revision `frev`,
/// stored under generation `generation`.
fn world(fields: (u32, u32), updated_at: Option<usize>, d: Durability, frev: usize) -> World {
    let (zalsa, revs) = any_zalsa();
    let ing = IngredientImpl::<VTr>::new(IngredientIndex::new(0));
    let page = zalsa.table().push_page::<Value<VTr>>(IngredientIndex::new(0), ing.memo_table_types.clone());
    // SAFETY: single-threaded; we are the unique writer of the page.
    let id = match unsafe {
        zalsa.table().page::<Value<VTr>>(page).allocate(page, |_| Value::<VTr> {
            updated_at: OptionalAtomicRevision::new(updated_at.map(Revision::from)),
            durability: d,
            revisions: [AtomicRevision::new(Revision::from(frev))],
            fields,
            // SAFETY: only accessed through this ingredient's memo table types.
            memos: unsafe { MemoTable::new(&ing.memo_table_types) },
        })
    } {
        Ok((id, _)) => id,
        Err(_) => panic!("fresh page is full"),
    };
    World { zalsa, ing, id, now: revs[0] }
}

fn peek(w: &World) -> &Value<VTr> {
    // SAFETY: single-threaded, the slot is initialized.
    unsafe { &*IngredientImpl::<VTr>::data_raw(w.zalsa.table(), w.id) }
}

// @verif prop=C06,C03,C01,C07,C02,C23 obl=O4 tier=thorough bounds="one page-backed tracked struct (1 identity + 1 tracked u32 field); symbolic old/new field values, old updated_at in [1, now], old/new durability, old field revision <= old updated_at, new stamp changed_at <= now, stored generation (full u32); arbitrary INV runtime state"
// @+ encodes="tracked_struct::IngredientImpl::<VTr>::update, IngredientImpl::data_raw, IngredientImpl::clear_memos, OptionalAtomicRevision::load/swap, Id::next_generation, update_field, MemoTableWithTypesMut::take_memos, MemoTable::reset, Table::get_raw"
/// C06-O4: re-creating a struct with the same identity field value keeps its id (same slot, same generation);
/// the tracked field's revision moves to the creator's changed_at iff its value differs or the durability decreased
/// (C03/C01), the durability and values are updated, and the struct is stamped as updated in this revision.
/// A changed identity field (hash collision) or a struct already updated in this revision follow their documented paths:
/// new generation with cleared memos (C07), resp. left untouched.
#[kani::proof]
#[kani::unwind(5)]
#[kani::stub(real_catch_unwind, stub_catch_unwind)]
fn c06_o4_update_keeps_identity() {
    let old: (u32, u32) = (kani::any(), kani::any());
    let new: (u32, u32) = (kani::any(), kani::any());
    let d_old = any_durability();
    let d_new = any_durability();
    let mut w = world(old, Some(1), d_old, 1);
    let up: usize = kani::any();
    kani::assume(1 <= up && up <= w.now);
    let frev: usize = kani::any();
    kani::assume(1 <= frev && frev <= up);
    let generation: u32 = kani::any();
    {
        // SAFETY: single-threaded.
        let v = unsafe { &mut *IngredientImpl::<VTr>::data_raw(w.zalsa.table(), w.id) };
        v.updated_at = OptionalAtomicRevision::new(Some(Revision::from(up)));
        v.revisions = [AtomicRevision::new(Revision::from(frev))];
    }
    let id = w.id.with_generation(generation);
    let changed_at: usize = kani::any();
    kani::assume(1 <= changed_at && changed_at <= w.now);
    let stamp = Stamp { durability: d_new, changed_at: Revision::from(changed_at) };
    // SAFETY: the value at `id` is initialized.
    let res = unsafe { w.ing.update(&w.zalsa, id, &stamp, new) };
    let v = peek(&w);
    let locked = up == w.now;
    if locked {
        // already updated (read-locked) in this revision: must not be touched
        match res {
            Ok(r) => { assert!(r == id, "C06: id changed for a struct already validated in this revision") }
            Err(_) => panic!("C06: update refused for a struct already validated in this revision"),
        }
        assert!(v.fields == old && v.durability == d_old && v.revisions[0].load().as_usize() == frev,
            "C23/C01: a struct that may be borrowed in this revision was modified");
    } else if generation == u32::MAX {
        assert!(res.is_err(), "C07: a slot at the maximum generation was updated in place");
        assert!(v.fields == old);
    } else {
        let got = match res {
            Ok(r) => r,
            Err(_) => panic!("C06: update refused"),
        };
        assert!(got.index() == id.index(), "C06: re-created struct moved to another slot");
        if new.0 == old.0 {
            assert!(got == id, "C06: re-creating a struct with the same identity changed its id");
        } else {
            assert!(got.generation() == generation + 1, "C07: changed identity fields did not advance the generation");
        }
        assert!(v.fields == new, "C01: re-created struct does not hold the new field values");
        let must_move = new.1 != old.1 || dur_index(d_new) < dur_index(d_old);
        let rev_after = v.revisions[0].load().as_usize();
        if must_move {
            assert!(rev_after >= changed_at && rev_after > 0, "C01: tracked field revision not moved although its value changed or its durability decreased");
            assert!(rev_after == changed_at, "C03: tracked field revision moved further than the creator's changed_at");
        } else {
            assert!(rev_after == frev, "C03: tracked field revision moved although value and durability are unchanged");
        }
        assert!(dur_index(v.durability) <= dur_index(d_new), "C02: re-created struct is more durable than its creator");
        assert!(v.durability == d_new, "C03: re-created struct did not take the creator's durability");
        assert!(v.updated_at.load() == Some(Revision::from(w.now)), "C06: re-created struct not stamped as updated in this revision");
    }
    kani::cover!(!locked && generation != u32::MAX && new.0 == old.0 && new.1 == old.1);
    kani::cover!(!locked && generation != u32::MAX && new.0 == old.0 && new.1 != old.1);
    kani::cover!(!locked && generation != u32::MAX && new.0 != old.0);
    kani::cover!(locked);
    kani::cover!(!locked && new.1 == old.1 && dur_index(d_new) < dur_index(d_old) && generation == 0);
    std::mem::forget(w);
}

// @verif prop=C06,C07 obl=O4 tier=thorough bounds="one page-backed tracked struct last updated before `now`; symbolic stored generation, field values; arbitrary INV runtime state"
// @+ encodes="tracked_struct::IngredientImpl::<VTr>::delete_entity, IngredientImpl::clear_memos, MemoTableWithTypesMut::take_memos, MemoTable::reset, crossbeam SegQueue::push"
/// C06-O4: a struct that its creator no longer creates is discarded: it is write-locked (no longer readable) and its
/// memo table is cleared.
#[kani::proof]
#[kani::unwind(5)]
#[kani::stub(real_catch_unwind, stub_catch_unwind)]
fn c06_o4_delete_discards() {
    let old: (u32, u32) = (kani::any(), kani::any());
    let w = world(old, Some(1), any_durability(), 1);
    kani::assume(w.now > 1);
    let up: usize = kani::any();
    kani::assume(1 <= up && up < w.now);
    {
        // SAFETY: single-threaded.
        let v = unsafe { &mut *IngredientImpl::<VTr>::data_raw(w.zalsa.table(), w.id) };
        v.updated_at = OptionalAtomicRevision::new(Some(Revision::from(up)));
    }
    let id = w.id.with_generation(kani::any());
    w.ing.delete_entity(&w.zalsa, id);
    assert!(peek(&w).updated_at.load().is_none(), "C06: a discarded struct is still readable");
    assert!(!w.ing.free_list.is_empty(), "C06: a discarded slot was not made available for reuse");
    kani::cover!(up + 1 < w.now);
    std::mem::forget(w);
}

// @verif prop=C07,C06,C01,C02 obl=O4 tier=thorough bounds="one page-backed, already discarded tracked struct whose id (symbolic generation < u32::MAX) is on the free list; symbolic new field values and creator stamp"
// @+ encodes="tracked_struct::IngredientImpl::<VTr>::allocate (free-list branch), crossbeam SegQueue push/pop, Id::next_generation, MemoTable::new"
/// C07-O4: the next allocation recycles a discarded slot under generation + 1 with fresh field values, revisions and an
/// empty memo table, so nothing keyed by the old id can match the new one.
#[kani::proof]
#[kani::unwind(5)]
#[kani::stub(real_catch_unwind, stub_catch_unwind)]
fn c07_o4_recycle_bumps_generation() {
    let old: (u32, u32) = (kani::any(), kani::any());
    let new: (u32, u32) = (kani::any(), kani::any());
    let w = world(old, None, any_durability(), 1);
    let generation: u32 = kani::any();
    kani::assume(generation != u32::MAX);
    let id = w.id.with_generation(generation);
    w.ing.free_list.push(id);
    let local = ZalsaLocal::new();
    let d_new = any_durability();
    let changed_at: usize = kani::any();
    kani::assume(1 <= changed_at && changed_at <= w.now);
    let stamp = Stamp { durability: d_new, changed_at: Revision::from(changed_at) };
    let got = w.ing.allocate(&w.zalsa, &local, &stamp, new);
    assert!(got.index() == id.index(), "C07: free-list slot not recycled");
    assert!(got.generation() == generation + 1, "C07: a recycled tracked-struct id kept its generation");
    let v = peek(&w);
    assert!(v.fields == new, "C07: recycled slot still holds the old struct's field values");
    assert!(dur_index(v.durability) <= dur_index(d_new), "C02: recycled struct is more durable than its creator");
    assert!(v.revisions[0].load().as_usize() >= changed_at, "C01: recycled struct's field revision predates its creator's changed_at");
    assert!(v.updated_at.load() == Some(Revision::from(w.now)));
    kani::cover!(generation == u32::MAX - 1);
    kani::cover!(generation == 0);
    std::mem::forget(local);
    std::mem::forget(w);
}

// @verif prop=C06 obl=O4 tier=quick bounds="struct updated in the current revision (read-locked) or already write-locked" covers=0/1
// @+ encodes="tracked_struct::IngredientImpl::<VTr>::delete_entity"
/// C06/C23: deleting a struct that was validated (and may be borrowed) in the current revision panics instead of freeing it.
#[kani::proof]
#[kani::unwind(5)]
#[kani::should_panic]
#[kani::stub(real_catch_unwind, stub_catch_unwind)]
#[kani::stub(alloc::fmt::format, stub_format)]
fn c06_o4_delete_locked_panics() {
    let mut w = world((kani::any(), kani::any()), Some(1), any_durability(), 1);
    let write_locked: bool = kani::any();
    {
        // SAFETY: single-threaded.
        let v = unsafe { &mut *IngredientImpl::<VTr>::data_raw(w.zalsa.table(), w.id) };
        v.updated_at = OptionalAtomicRevision::new(if write_locked { None } else { Some(Revision::from(w.now)) });
    }
    w.ing.delete_entity(&w.zalsa, w.id);
    kani::cover!(true, "MUST-BE-UNREACHABLE: delete_entity freed a struct that is locked in this revision");
    std::mem::forget(w);
}

// @verif prop=C01,C03 obl=O3 tier=thorough bounds="one page-backed tracked struct; symbolic field revision and queried revision <= now"
// @+ encodes="tracked_field::FieldIngredientImpl::<VTr>::maybe_changed_after, IngredientImpl::data_raw"
/// C01-O3/C03-O3: a dependency on a tracked field is Changed iff the field's revision is later than the reader's verified revision.
#[kani::proof]
#[kani::unwind(5)]
#[kani::stub(real_catch_unwind, stub_catch_unwind)]
fn c01_o3_tracked_field_change_test() {
    let w = world((1, 2), Some(1), any_durability(), 1);
    let frev: usize = kani::any();
    let q: usize = kani::any();
    kani::assume(1 <= frev && frev <= w.now && 1 <= q && q <= w.now);
    {
        // SAFETY: single-threaded.
        let v = unsafe { &mut *IngredientImpl::<VTr>::data_raw(w.zalsa.table(), w.id) };
        v.revisions = [AtomicRevision::new(Revision::from(frev))];
    }
    let f = tracked_field::FieldIngredientImpl::<VTr>::new(0, IngredientIndex::new(1));
    // SAFETY: the field ingredient ignores its database argument.
    let res = unsafe { f.maybe_changed_after(&w.zalsa, dangling_raw_db(), w.id, Revision::from(q)) };
    assert!(res.is_unchanged() == (frev <= q), "C01/C03: tracked field change test differs from 'field revision > verified revision'");
    kani::cover!(frev > q);
    kani::cover!(frev <= q);
    std::mem::forget(w);
}

// ---- cost probes (prop=NONE; not part of any claim) ----

// @verif prop=NONE obl=X tier=thorough bounds="probe: cost of world()"
#[kani::proof]
#[kani::unwind(5)]
#[kani::stub(real_catch_unwind, stub_catch_unwind)]
fn x_ts_world_only() {
    let w = world((1, 2), Some(1), Durability::LOW, 1);
    assert!(peek(&w).fields == (1, 2));
    std::mem::forget(w);
}

// @verif prop=NONE obl=X tier=thorough bounds="probe: cost of a page of Value<VTr> without the ingredient and without Zalsa"
#[kani::proof]
#[kani::unwind(5)]
#[kani::stub(real_catch_unwind, stub_catch_unwind)]
fn x_ts_page_only() {
    let table = crate::table::Table::default();
    let types = Arc::new(MemoTableTypes::default());
    let page = table.push_page::<Value<VTr>>(IngredientIndex::new(0), types.clone());
    // SAFETY: single-threaded.
    let id = match unsafe {
        table.page::<Value<VTr>>(page).allocate(page, |_| Value::<VTr> {
            updated_at: OptionalAtomicRevision::new(Some(Revision::start())),
            durability: Durability::LOW,
            revisions: [AtomicRevision::new(Revision::start())],
            fields: (1, 2),
            memos: MemoTable::new(&types),
        })
    } {
        Ok((id, _)) => id,
        Err(_) => panic!(),
    };
    let v: &Value<VTr> = table.get(id);
    assert!(v.fields == (1, 2));
    std::mem::forget(table);
}

// @verif prop=NONE obl=X tier=thorough bounds="probe: cost of IngredientImpl::<VTr>::new alone"
#[kani::proof]
#[kani::unwind(5)]
#[kani::stub(real_catch_unwind, stub_catch_unwind)]
fn x_ts_ingredient_only() {
    let ing = IngredientImpl::<VTr>::new(IngredientIndex::new(0));
    assert!(ing.ingredient_index.as_u32() == 0);
    std::mem::forget(ing);
}
