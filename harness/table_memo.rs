// Kani harnesses for /repo/src/table/memo.rs (compiled as `crate::table::memo::verif`).
// Properties: C07-O5 (memos of a reused slot are gone), C23-O3 (typed memo-entry table).

use crate::verif_prelude::*;

/// A memo type for table-level harnesses.
pub(crate) struct VMemo {
    pub(crate) tag: u32,
}

impl Memo for VMemo {
    fn has_value(&self) -> bool {
        true
    }
    fn remove_outputs(&self, _: &Zalsa, _: DatabaseKeyIndex) {}
    #[cfg(feature = "salsa_unstable")]
    fn memory_usage(&self) -> crate::database::MemoInfo {
        unimplemented!()
    }
}

/// A second, different memo type (for the type-check harness).
pub(crate) struct VMemo2 {
    pub(crate) tag: u64,
}

impl Memo for VMemo2 {
    fn has_value(&self) -> bool {
        false
    }
    fn remove_outputs(&self, _: &Zalsa, _: DatabaseKeyIndex) {}
    #[cfg(feature = "salsa_unstable")]
    fn memory_usage(&self) -> crate::database::MemoInfo {
        unimplemented!()
    }
}

pub(crate) fn types2() -> MemoTableTypes {
    let mut t = MemoTableTypes::default();
    t.set(MemoIngredientIndex::from_usize(0), MemoEntryType::of::<VMemo>());
    t.set(MemoIngredientIndex::from_usize(1), MemoEntryType::of::<VMemo2>());
    t
}

fn boxed<M>(m: M) -> NonNull<M> {
    NonNull::from(Box::leak(Box::new(m)))
}

// @verif prop=C23,C07 obl=O3 tier=quick bounds="memo table with 2 typed slots; symbolic payloads; operations insert/insert/get/take_memos/reset in the order every slot-reuse path performs"
// @+ encodes="MemoTable::new, LazyMemoEntries::new/get/get_or_init/initialize/clear, MemoTableWithTypes::insert, MemoTableWithTypes::get, MemoTableWithTypesMut::take_memos, MemoEntry::take, MemoTable::reset, MemoEntryType::of/to_dummy/from_dummy/to_dyn_fn, MemoTableTypes::set/attach_memos/attach_memos_mut"
/// C23-O3/C07-O5: the lazily allocated memo-entry table returns exactly the pointer that was inserted for a slot
/// (None before), insert returns the previous pointer, an out-of-range slot stores nothing; after the
/// take_memos + reset that every slot-reuse path performs, every slot reads None and each memo was handed out
/// exactly once (so it is freed once); all pointer accesses are in bounds (CBMC checks).
#[kani::proof]
#[kani::unwind(5)]
#[kani::stub(real_catch_unwind, stub_catch_unwind)]
fn c23_o3_memo_table_roundtrip() {
    let types = types2();
    // SAFETY: the table is only accessed with `types`.
    let mut table = unsafe { MemoTable::new(&types) };
    let i0 = MemoIngredientIndex::from_usize(0);
    let i1 = MemoIngredientIndex::from_usize(1);
    let i2 = MemoIngredientIndex::from_usize(2);
    // SAFETY: `types` is the table's types table.
    let view = || unsafe { types.attach_memos(&table) };
    assert!(view().get::<VMemo>(i0).is_none(), "C07: a fresh memo table is not empty");
    assert!(view().get::<VMemo2>(i1).is_none());
    let t0: u32 = kani::any();
    let t0b: u32 = kani::any();
    let t1: u64 = kani::any();
    let a = boxed(VMemo { tag: t0 });
    assert!(view().insert(i0, a).is_none());
    assert!(view().get::<VMemo>(i0) == Some(a), "C23: memo table returned a different pointer than was inserted");
    assert!(view().get::<VMemo2>(i1).is_none(), "C23: insert wrote to another slot");
    let b = boxed(VMemo { tag: t0b });
    let prev = view().insert(i0, b);
    assert!(prev == Some(a), "C23: insert did not return the replaced memo");
    // SAFETY: `prev` is the box leaked above, no longer in the table.
    drop(unsafe { Box::from_raw(a.as_ptr()) });
    let c = boxed(VMemo2 { tag: t1 });
    assert!(view().insert(i1, c).is_none());
    // SAFETY: the memo is live.
    assert!(unsafe { view().get::<VMemo>(i0).unwrap().as_ref().tag } == t0b);
    assert!(unsafe { view().get::<VMemo2>(i1).unwrap().as_ref().tag } == t1);
    // out of range: nothing stored, nothing returned
    let d = boxed(VMemo { tag: 0 });
    assert!(view().insert(i2, d).is_none());
    assert!(view().get::<VMemo>(i2).is_none());
    // SAFETY: `d` was not stored.
    drop(unsafe { Box::from_raw(d.as_ptr()) });

    // what clear_memos does on every slot-reuse path
    let mut seen = [0u8; 2];
    {
        // SAFETY: `types` is the table's types table; no references into the memos remain.
        let mut m = unsafe { types.attach_memos_mut(&mut table) };
        unsafe {
            m.take_memos(|index, memo| {
                seen[index.as_usize()] += 1;
                drop(memo);
            })
        };
    }
    assert!(seen[0] == 1 && seen[1] == 1, "C23: a memo was handed out for freeing zero or several times");
    table.reset();
    // SAFETY: as above.
    let view = || unsafe { types.attach_memos(&table) };
    assert!(view().get::<VMemo>(i0).is_none(), "C07: a memo of the old value survived the slot reset");
    assert!(view().get::<VMemo2>(i1).is_none(), "C07: a memo of the old value survived the slot reset");
    drop(table);
}

// @verif prop=C23 obl=O3 tier=quick bounds="memo table with 2 typed slots; insert of the wrong memo type into either slot" covers=0/1
// @+ encodes="MemoTableWithTypes::insert, type_assert_failed"
/// C23-O3: inserting a memo of the wrong type for a slot panics instead of storing a mistyped pointer.
#[kani::proof]
#[kani::unwind(5)]
#[kani::should_panic]
#[kani::stub(real_catch_unwind, stub_catch_unwind)]
#[kani::stub(alloc::fmt::format, stub_format)]
fn c23_o3_memo_table_type_check() {
    let types = types2();
    // SAFETY: the table is only accessed with `types`.
    let table = unsafe { MemoTable::new(&types) };
    // SAFETY: `types` is the table's types table.
    let view = unsafe { types.attach_memos(&table) };
    let wrong = boxed(VMemo2 { tag: 1 });
    let _ = view.insert(MemoIngredientIndex::from_usize(0), wrong);
    kani::cover!(true, "MUST-BE-UNREACHABLE: a mistyped memo was stored");
    std::mem::forget(table);
}
