// Kani harnesses for /repo/src/runtime/dependency_graph.rs
// (compiled as `crate::runtime::dependency_graph::verif`).
// Property: C19 (wait graph stays acyclic; waiters are released exactly once with the outcome) -- NOT CLAIMED:
// these harnesses are the admission probes of DESIGN 3-2/11; none returned a verdict within 45 min.
// All protocol state lives in one struct behind one mutex and every transition is one method call
// with explicit thread ids, so interleavings reduce to sequences of atomic steps on this struct.
// Container-backed (three FxHashMaps): keys are concrete, values/outcomes symbolic.

use crate::verif_prelude::*;

fn any_wait_result() -> (WaitResult, u8) {
    let r: u8 = kani::any();
    kani::assume(r < 3);
    (
        match r {
            0 => WaitResult::Completed,
            1 => WaitResult::Panicked,
            _ => WaitResult::Cancelled,
        },
        r,
    )
}

fn wr_code(w: WaitResult) -> u8 {
    match w {
        WaitResult::Completed => 0,
        WaitResult::Panicked => 1,
        WaitResult::Cancelled => 2,
    }
}

// @verif prop=NONE obl=O1 tier=thorough bounds="empty graph and one edge t1 -> t2 (concrete thread ids 1..3); all 9 ordered pairs queried"
// @+ encodes="DependencyGraph::default, DependencyGraph::add_edge, DependencyGraph::depends_on, Edges::depends_on, Edges::insert, Edge::new"
/// C19-O1 (smallest instance): depends_on is reachability in the wait graph.
#[kani::proof]
#[kani::unwind(5)]
#[kani::stub(real_catch_unwind, stub_catch_unwind)]
fn c19_o1_depends_on_one_edge() {
    let mut dg = DependencyGraph::default();
    assert!(!dg.depends_on(tid(1), tid(2)));
    assert!(dg.depends_on(tid(1), tid(1)));
    let cv1 = std::pin::pin!(edge::EdgeCondvar::default());
    // SAFETY: the condvar outlives the graph (both forgotten below).
    unsafe { dg.add_edge(tid(1), key(5, 0, 0), tid(2), cv1.as_ref()) };
    assert!(dg.depends_on(tid(1), tid(2)), "C19: a recorded wait is not seen by the cycle check");
    assert!(!dg.depends_on(tid(2), tid(1)), "C19: cycle check reports a wait that does not exist");
    assert!(!dg.depends_on(tid(1), tid(3)));
    assert!(!dg.depends_on(tid(3), tid(1)));
    std::mem::forget(dg);
}

// @verif prop=NONE obl=O3 tier=thorough bounds="one waiter t1 on query q1 run by t2; symbolic outcome (3 values)"
// @+ encodes="DependencyGraph::add_edge, DependencyGraph::unblock_runtimes_blocked_on, DependencyGraph::unblock_runtime, Edge::notify"
/// C19-O3 (smallest instance): when the awaited query finishes, its waiter leaves the wait graph and finds exactly the
/// announced outcome; a thread that was not waiting is not touched.
#[kani::proof]
#[kani::unwind(5)]
#[kani::stub(real_catch_unwind, stub_catch_unwind)]
fn c19_o3_unblock_one_waiter() {
    let mut dg = DependencyGraph::default();
    let cv1 = std::pin::pin!(edge::EdgeCondvar::default());
    let q1 = key(5, 0, 0);
    // SAFETY: the condvar outlives the graph.
    unsafe { dg.add_edge(tid(1), q1, tid(2), cv1.as_ref()) };
    let (wr, code) = any_wait_result();
    dg.unblock_runtimes_blocked_on(q1, wr);
    assert!(!dg.edges.contains_key(&tid(1)), "C19: a released waiter is still in the wait graph");
    assert!(!dg.depends_on(tid(1), tid(2)));
    match dg.wait_results.get(&tid(1)) {
        Some(w) => { assert!(wr_code(*w) == code, "C19: waiter resumed with a different outcome") }
        None => panic!("C19: waiter released without an outcome (lost wake-up)"),
    }
    assert!(dg.wait_results.get(&tid(2)).is_none() && dg.wait_results.get(&tid(3)).is_none());
    assert!(dg.query_dependents.get(&q1).is_none(), "C19: waiter list not consumed (would be woken twice)");
    kani::cover!(code == 1);
    std::mem::forget(dg);
}

// @verif prop=NONE obl=O2 tier=thorough bounds="chain t1 -> t2 -> t3 on two queries; then the outcome of q2 symbolic"
// @+ encodes="DependencyGraph::add_edge, DependencyGraph::depends_on, DependencyGraph::unblock_runtimes_blocked_on"
/// C19-O2/O3: transitive waits are seen by the cycle check (so t3 -> t1 would be refused as a cycle), and releasing the
/// middle thread removes exactly its edge.
#[kani::proof]
#[kani::unwind(6)]
#[kani::stub(real_catch_unwind, stub_catch_unwind)]
fn c19_o2_chain_then_unblock() {
    let mut dg = DependencyGraph::default();
    let cv1 = std::pin::pin!(edge::EdgeCondvar::default());
    let cv2 = std::pin::pin!(edge::EdgeCondvar::default());
    let q1 = key(5, 0, 0);
    let q2 = key(5, 1, 0);
    // SAFETY: the condvars outlive the graph.
    unsafe { dg.add_edge(tid(1), q1, tid(2), cv1.as_ref()) };
    unsafe { dg.add_edge(tid(2), q2, tid(3), cv2.as_ref()) };
    assert!(dg.depends_on(tid(1), tid(3)), "C19: transitive wait not seen by the cycle check");
    assert!(!dg.depends_on(tid(3), tid(1)));
    let (wr, code) = any_wait_result();
    dg.unblock_runtimes_blocked_on(q2, wr);
    assert!(!dg.edges.contains_key(&tid(2)));
    assert!(dg.edges.contains_key(&tid(1)), "C19: an unrelated waiter was released");
    match dg.wait_results.get(&tid(2)) {
        Some(w) => { assert!(wr_code(*w) == code) }
        None => panic!("C19: waiter released without an outcome"),
    }
    assert!(dg.wait_results.get(&tid(1)).is_none());
    assert!(!dg.depends_on(tid(1), tid(3)));
    assert!(dg.depends_on(tid(1), tid(2)));
    std::mem::forget(dg);
}
