// stamp recording of the active query (sub-file of the zalsa_local hook)
use crate::verif_prelude::*;

// ---------------------------------------------------------------------------------------------
// C01-O1a / C04-O1 / C02-O5: stamp recording of the active query (hash-free core)
// ---------------------------------------------------------------------------------------------

/// Reference model of the stamp of an executing query.
struct StampModel {
    durability: u8,
    changed_at: usize,
    untracked: bool,
}

fn read_step(local: &ZalsaLocal, now: usize, m: &mut StampModel) {
    let op: u8 = kani::any();
    kani::assume(op < 5);
    let r: usize = kani::any();
    kani::assume(1 <= r && r <= now);
    match op {
        0 => {
            // Database::report_untracked_read / an untracked read inside salsa
            local.report_untracked_read(Revision::from(now));
            m.untracked = true;
            m.durability = 0;
            m.changed_at = now;
        }
        1 => {
            // e.g. a non-reusable interned value: raises changed_at without an edge
            local.report_tracked_read_revision(Revision::from(r));
            if r > m.changed_at {
                m.changed_at = r;
            }
        }
        2 => {
            // reading a NEVER_CHANGE field (no edge is recorded, so no hashing)
            local.report_tracked_read_simple(key(7, 0, 0), Durability::NEVER_CHANGE, Revision::from(r));
            if r > m.changed_at {
                m.changed_at = r;
            }
        }
        3 => {
            // calling a NEVER_CHANGE tracked function without cycle heads
            local.report_tracked_read(
                key(8, 0, 0),
                Durability::NEVER_CHANGE,
                Revision::from(r),
                &CycleHeads::default(), // (not the global empty_cycle_heads(): its OnceLock initialisation is costly to encode)
                #[cfg(feature = "accumulator")]
                false,
                #[cfg(feature = "accumulator")]
                &Default::default(),
            );
            if r > m.changed_at {
                m.changed_at = r;
            }
        }
        _ => {}
    }
}

// @verif prop=C01,C04,C02 obl=O1 tier=quick bounds="every sequence of exactly 2 operations from {untracked read, revision-only read, NEVER_CHANGE field read, NEVER_CHANGE function read, noop} with symbolic changed_at <= now < 2^40 (reads that record an edge hash into an FxIndexSet and are outside this harness)"
// @+ encodes="ZalsaLocal::push_query, QueryStack::push_new_query, ActiveQuery::new, ZalsaLocal::report_untracked_read, ActiveQuery::add_untracked_read, ZalsaLocal::report_tracked_read_revision, ActiveQuery::add_changed_at, ZalsaLocal::report_tracked_read_simple, ActiveQuery::add_read_simple, ZalsaLocal::report_tracked_read, ActiveQuery::add_read, ZalsaLocal::active_query, ActiveQuery::stamp"
/// C01-O1a/C04-O1: while a query executes, its recorded durability is the minimum and its changed_at the maximum over
/// what it read; after an untracked read in revision `now` it is (LOW, now) whatever is read afterwards.
#[kani::proof]
#[kani::unwind(5)]
#[kani::stub(real_catch_unwind, stub_catch_unwind)]
fn c01_o1_stamp_recording() {
    let local = ZalsaLocal::new();
    let me = key(3, 0, 0);
    let guard = local.push_query(me);
    let now: usize = kani::any();
    kani::assume(1 <= now && now < REV_MAX);
    let mut m = StampModel { durability: 3, changed_at: 1, untracked: false };
    read_step(&local, now, &mut m);
    read_step(&local, now, &mut m);
    match local.active_query() {
        Some((k, stamp)) => {
            assert!(k == me);
            assert!(dur_index(stamp.durability) == m.durability, "C01/C02: recorded durability is not the minimum of what was read");
            assert!(stamp.changed_at.as_usize() == m.changed_at, "C01: recorded changed_at is not the maximum of what was read");
            if m.untracked {
                assert!(stamp.durability == Durability::LOW, "C04: untracked read did not force LOW durability");
                assert!(stamp.changed_at.as_usize() == now, "C04: untracked read did not force changed_at = now");
            }
        }
        None => panic!("C01: no active query"),
    }
    kani::cover!(m.untracked && m.changed_at == now);
    kani::cover!(!m.untracked && m.changed_at > 1 && m.durability == 3);
    std::mem::forget(guard);
    std::mem::forget(local);
}

// @verif prop=NONE obl=O1 tier=thorough bounds="(does not terminate within 25 min: kept as a probe) one operation (untracked read or revision-only read, symbolic) then completion; symbolic now < 2^40"
// @+ encodes="ZalsaLocal::push_query, ZalsaLocal::report_untracked_read, ZalsaLocal::report_tracked_read_revision, ActiveQueryGuard::pop, QueryStack::pop_into_revisions, ActiveQuery::prepare_completion, QueryCompletion::finish, OriginAndExtra::derived, OriginAndExtra::derived_untracked"
/// C01-O1a/C04-O1: the completed query carries exactly the recorded stamp; its stored origin is DerivedUntracked iff an
/// untracked read was reported (so later revisions must re-execute it), Derived otherwise; without cycle heads it is final.
#[kani::proof]
#[kani::unwind(5)]
#[kani::stub(real_catch_unwind, stub_catch_unwind)]
fn c01_o1_completion_carries_stamp() {
    let local = ZalsaLocal::new();
    let guard = local.push_query(key(3, 0, 0));
    let now: usize = kani::any();
    kani::assume(1 <= now && now < REV_MAX);
    let untracked: bool = kani::any();
    let r: usize = kani::any();
    kani::assume(1 <= r && r <= now);
    if untracked {
        local.report_untracked_read(Revision::from(now));
    } else {
        local.report_tracked_read_revision(Revision::from(r));
    }
    let done = guard.pop(IterationStamp::default());
    let rv = &done.revisions;
    if untracked {
        assert!(rv.durability == Durability::LOW, "C04: untracked read did not force LOW durability");
        assert!(rv.changed_at.as_usize() == now, "C04: untracked read did not force changed_at = now");
    } else {
        assert!(rv.durability == Durability::NEVER_CHANGE);
        assert!(rv.changed_at.as_usize() == r, "C01: completed changed_at differs from the recorded one");
    }
    match rv.origin() {
        QueryOriginRef::Derived(e) => {
            assert!(!untracked, "C04: a query that read untracked state completed as fully tracked");
            assert!(e.iter().next().is_none());
        }
        QueryOriginRef::DerivedUntracked(e) => {
            assert!(untracked, "C03: a fully tracked query completed as untracked");
            assert!(e.iter().next().is_none());
        }
        QueryOriginRef::Assigned(_) => panic!("C01: completed query has an assigned origin"),
    }
    assert!(rv.verified_final.load(Ordering::Relaxed), "C01: query without cycle heads not final");
    kani::cover!(untracked);
    kani::cover!(!untracked && r > 1);
    std::mem::forget(done);
    std::mem::forget(local);
}

// ---- cost probes (prop=NONE; not part of any claim) ----

// @verif prop=NONE obl=X tier=thorough bounds="probe: push_query + active_query"
#[kani::proof]
#[kani::unwind(5)]
#[kani::stub(real_catch_unwind, stub_catch_unwind)]
fn x_zl_push_only() {
    let local = ZalsaLocal::new();
    let guard = local.push_query(key(3, 0, 0));
    assert!(local.active_query().is_some());
    std::mem::forget(guard);
    std::mem::forget(local);
}

// @verif prop=NONE obl=X tier=thorough bounds="probe: push_query + one untracked read + active_query"
#[kani::proof]
#[kani::unwind(5)]
#[kani::stub(real_catch_unwind, stub_catch_unwind)]
fn x_zl_push_read() {
    let local = ZalsaLocal::new();
    let guard = local.push_query(key(3, 0, 0));
    local.report_untracked_read(Revision::from(kani::any::<u8>() as usize + 1));
    assert!(local.active_query().is_some());
    std::mem::forget(guard);
    std::mem::forget(local);
}

// @verif prop=NONE obl=X tier=thorough bounds="probe: push_query + pop"
#[kani::proof]
#[kani::unwind(5)]
#[kani::stub(real_catch_unwind, stub_catch_unwind)]
fn x_zl_push_pop() {
    let local = ZalsaLocal::new();
    let guard = local.push_query(key(3, 0, 0));
    let done = guard.pop(IterationStamp::default());
    assert!(done.revisions.durability == Durability::NEVER_CHANGE);
    std::mem::forget(done);
    std::mem::forget(local);
}
