// Kani harnesses for /repo/src/zalsa_local.rs (compiled as `crate::zalsa_local::verif`).
// Properties: C25 (edge storage round trip), C23 (raw-pointer kernels), C21 (token state
// machine), C02-O7 (edge discarding).

use crate::verif_prelude::*;

// ---------------------------------------------------------------------------------------------
// shared vocabulary
// ---------------------------------------------------------------------------------------------

/// The raw symbolic description of one dependency edge: the oracle side of every round trip.
#[derive(Copy, Clone)]
struct RawEdge {
    ingredient: u32,
    index: u32,
    generation: u32,
    output: bool,
}

impl RawEdge {
    /// Every value a real edge can have: ingredient <= 0x7FFF_FFFF (`IngredientIndex::MAX_INDEX`),
    /// index < `Id::MAX_U32`, every generation, both kinds.
    fn any() -> Self {
        let e = RawEdge {
            ingredient: kani::any(),
            index: kani::any(),
            generation: kani::any(),
            output: kani::any(),
        };
        kani::assume(e.ingredient <= 0x7FFF_FFFF);
        kani::assume(e.index < Id::MAX_U32);
        e
    }

    fn key(self) -> DatabaseKeyIndex {
        key(self.ingredient, self.index, self.generation)
    }

    fn edge(self) -> QueryEdge {
        if self.output {
            QueryEdge::output(self.key())
        } else {
            QueryEdge::input(self.key())
        }
    }

    /// Specification of "fits the compact encoding" (from the doc comment of `PackedQueryEdge`).
    fn packable(self) -> bool {
        !self.output && self.ingredient <= 0xFFF && self.generation <= 0xF_FFFF
    }

    /// Does the decoded edge `e` denote exactly this raw edge (observed through the public
    /// accessors `key()`/`kind()` only)?
    fn matches(self, e: QueryEdge) -> bool {
        let k = e.key();
        k.ingredient_index().as_u32() == self.ingredient
            && k.key_index().index() == self.index
            && k.key_index().generation() == self.generation
            && (e.kind() == QueryEdgeKind::Output) == self.output
    }

    fn matches_key(self, k: DatabaseKeyIndex) -> bool {
        k.ingredient_index().as_u32() == self.ingredient
            && k.key_index().index() == self.index
            && k.key_index().generation() == self.generation
    }
}

fn any_stamp() -> IterationStamp {
    crate::cycle::verif::any_stamp()
}

fn some_extra(iteration: IterationStamp, converged: bool) -> QueryRevisionsExtra {
    let mut extra = QueryRevisionsExtra::new(
        #[cfg(feature = "accumulator")]
        AccumulatedMap::default(),
        ThinVec::default(),
        CycleHeads::default(),
        iteration,
        true,
    );
    if let Some(inner) = extra.0.as_mut() {
        inner.cycle_converged = converged;
    }
    extra
}

fn is_packed_layout(edges: QueryEdges<'_>) -> bool {
    matches!(edges.data, QueryEdgesData::Packed(_))
}

fn build<const N: usize>(raw: [RawEdge; N], untracked: bool, extra: Option<(IterationStamp, bool)>) -> OriginAndExtra {
    let edges: [QueryEdge; N] = core::array::from_fn(|i| raw[i].edge());
    let ex = match extra {
        Some((it, conv)) => some_extra(it, conv),
        None => QueryRevisionsExtra::default(),
    };
    if untracked {
        OriginAndExtra::derived_untracked(edges.into_iter(), ex)
    } else {
        OriginAndExtra::derived(edges.into_iter(), ex)
    }
}

/// The stored edge view, after checking that the origin kind is the one that was stored.
fn stored_edges(origin: &OriginAndExtra, untracked: bool) -> QueryEdges<'_> {
    assert!(origin.is_derived_untracked() == untracked, "C25: origin kind changed");
    match origin.origin() {
        QueryOriginRef::Derived(e) => {
            assert!(!untracked, "C25: derived-untracked origin decoded as derived");
            e
        }
        QueryOriginRef::DerivedUntracked(e) => {
            assert!(untracked, "C25: derived origin decoded as derived-untracked");
            e
        }
        QueryOriginRef::Assigned(_) => panic!("C25: derived origin decoded as assigned"),
    }
}

/// Does the implementation accept this edge for the compact encoding? (its own decision, not a spec)
fn fits(e: RawEdge) -> bool {
    PackedQueryEdge::new(e.edge()).is_some()
}

fn all_packable<const N: usize>(raw: &[RawEdge; N]) -> bool {
    let mut all = true;
    let mut i = 0;
    while i < N {
        all &= raw[i].packable();
        i += 1;
    }
    all
}

/// Aspect A: same edges, same order, same kinds (forward), edge count, layout rule, kind.
fn check_forward<const N: usize>(origin: &OriginAndExtra, raw: &[RawEdge; N], untracked: bool) {
    let stored = stored_edges(origin, untracked);
    let mut it = stored.iter();
    assert!(it.len() == N, "C25: stored edge count differs");
    let mut i = 0;
    while i < N {
        match it.next() {
            Some(e) => { assert!(raw[i].matches(e), "C25: forward decoding differs from the stored edge") }
            None => panic!("C25: stored edges end early"),
        }
        i += 1;
    }
    assert!(it.next().is_none(), "C25: extra edge decoded");
    // (which layout is chosen is an implementation choice and is not asserted; harnesses use
    // `is_packed_layout` only in cover! witnesses so that both layouts are known to be exercised)
}

/// Aspect B: reverse iteration is the reverse.
fn check_backward<const N: usize>(origin: &OriginAndExtra, raw: &[RawEdge; N], untracked: bool) {
    let stored = stored_edges(origin, untracked);
    let mut it = stored.iter();
    let mut i = N;
    while i > 0 {
        i -= 1;
        match it.next_back() {
            Some(e) => { assert!(raw[i].matches(e), "C25: backward decoding differs from the stored edge") }
            None => panic!("C25: stored edges end early (backward)"),
        }
    }
    assert!(it.next_back().is_none(), "C25: extra edge decoded (backward)");
}

/// Aspect C: inputs()/outputs() partition the keys, preserving order.
fn check_partition<const N: usize>(origin: &OriginAndExtra, raw: &[RawEdge; N]) {
    let view = origin.origin();
    let mut inputs = view.inputs();
    let mut outputs = view.outputs();
    let mut i = 0;
    while i < N {
        if raw[i].output {
            match outputs.next() {
                Some(k) => { assert!(raw[i].matches_key(k), "C25: outputs() differs") }
                None => panic!("C25: outputs() lost an output edge"),
            }
        } else {
            match inputs.next() {
                Some(k) => { assert!(raw[i].matches_key(k), "C25: inputs() differs") }
                None => panic!("C25: inputs() lost an input edge"),
            }
        }
        i += 1;
    }
    assert!(inputs.next().is_none(), "C25: inputs() yields an extra key");
    assert!(outputs.next().is_none(), "C25: outputs() yields an extra key");
}

/// Aspect D: extra data is what was put in.
fn check_extra(origin: &OriginAndExtra, extra: Option<(IterationStamp, bool)>) {
    match (extra, origin.extra()) {
        (Some((stamp, conv)), Some(inner)) => {
            assert!(inner.iteration.load() == stamp, "C25: extra iteration stamp lost");
            assert!(inner.cycle_converged == conv, "C25: extra cycle_converged lost");
            assert!(inner.cycle_heads.is_empty());
            assert!(inner.tracked_struct_ids.is_empty());
        }
        (None, None) => {}
        _ => panic!("C25: presence of extra data changed"),
    }
}

// ---------------------------------------------------------------------------------------------
// C25-O1: leaf kernels, all values
// ---------------------------------------------------------------------------------------------

// @verif prop=C25 obl=O1 tier=quick bounds="all values: every valid (ingredient, index, generation, kind) of two edges"
// @+ encodes="QueryEdge::input, QueryEdge::output, QueryEdge::key, QueryEdge::kind, QueryEdge::eq, IngredientIndex::with_tag, IngredientIndex::tag, Id::from_index, Id::with_generation"
/// C25-O1: key(input(k)) = k with kind Input, key(output(k)) = k with kind Output; edge equality distinguishes every component.
#[kani::proof]
fn c25_o1_edge_key_kind() {
    let r = RawEdge::any();
    let e = r.edge();
    assert!(r.matches(e));
    assert!(e.key() == r.key());
    // kind is carried by the tag bit only and never leaks into the key
    assert!(e.key().ingredient_index().as_u32() <= 0x7FFF_FFFF);
    // equality of edges distinguishes every component
    let r2 = RawEdge::any();
    let same = r.ingredient == r2.ingredient
        && r.index == r2.index
        && r.generation == r2.generation
        && r.output == r2.output;
    assert!((e == r2.edge()) == same);
    kani::cover!(r.output && r.ingredient == 0x7FFF_FFFF);
    kani::cover!(!r.output && r.generation == u32::MAX);
}

// @verif prop=C25 obl=O1 tier=quick bounds="all values: every valid edge"
// @+ encodes="PackedQueryEdge::new, PackedQueryEdge::edge"
/// C25-O1: every edge the compact encoding accepts decodes to exactly the same edge (all values; which edges are accepted is not asserted).
#[kani::proof]
fn c25_o1_packed_leaf() {
    let r = RawEdge::any();
    let e = r.edge();
    // Which edges fit the compact encoding is an implementation choice (not asserted); whatever is
    // packed must decode to exactly the same edge.
    if let Some(p) = PackedQueryEdge::new(e) {
        assert!(r.matches(p.edge()), "C25: packed edge decodes to a different edge");
    }
    kani::cover!(PackedQueryEdge::new(e).is_some());
    kani::cover!(PackedQueryEdge::new(e).is_none());
    kani::cover!(PackedQueryEdge::new(e).is_some() && r.ingredient > 1 && r.generation > 1);
}

// @verif prop=C25 obl=O1 tier=quick bounds="all values: all 2x2x2 derived tag combinations and both assigned tags"
// @+ encodes="QueryOriginTag::derived, QueryOriginTag::assigned, QueryOriginTag::kind, QueryOriginTag::layout, OriginAndExtraTag::with_extra, OriginAndExtraTag::without_extra, OriginAndExtraTag::layout, OriginAndExtraTag::origin"
/// C25-O1: tag bytes decode to the kind, edge layout and extra-presence that were encoded.
#[kani::proof]
fn c25_o1_tags() {
    let untracked: bool = kani::any();
    let wide: bool = kani::any();
    let with_extra: bool = kani::any();
    let kind = if untracked { DerivedOriginKind::DerivedUntracked } else { DerivedOriginKind::Derived };
    let layout = if wide { QueryEdgeLayout::Wide } else { QueryEdgeLayout::Packed };
    let inner = QueryOriginTag::derived(kind, layout);
    let tag = if with_extra { OriginAndExtraTag::with_extra(inner) } else { OriginAndExtraTag::without_extra(inner) };
    assert!(matches!(tag.layout(), OriginAndExtraLayout::WithExtra) == with_extra);
    let back = tag.origin();
    assert!(matches!(back.layout(), QueryEdgeLayout::Wide) == wide);
    match back.kind() {
        QueryOriginKind::Derived => { assert!(!untracked) }
        QueryOriginKind::DerivedUntracked => { assert!(untracked) }
        QueryOriginKind::Assigned => panic!("C25: derived tag decoded as assigned"),
    }
    // assigned
    let a = QueryOriginTag::assigned();
    let tag = if with_extra { OriginAndExtraTag::with_extra(a) } else { OriginAndExtraTag::without_extra(a) };
    assert!(matches!(tag.layout(), OriginAndExtraLayout::WithExtra) == with_extra);
    assert!(matches!(tag.origin().kind(), QueryOriginKind::Assigned));
    kani::cover!(untracked && wide && with_extra);
}

// ---------------------------------------------------------------------------------------------
// C25-O2 / O3: stored origins, N symbolic edges, with and without extra data
// ---------------------------------------------------------------------------------------------

fn any_extra() -> Option<(IterationStamp, bool)> {
    if kani::any() { Some((any_stamp(), kani::any())) } else { None }
}

// @verif prop=C25,C23 obl=O2 tier=quick bounds="all values of every edge field (ingredient <= 0x7FFF_FFFF, index < Id::MAX_U32, any generation, both kinds); exactly 0 edges; both derived kinds"
// @+ encodes="OriginAndExtra::derived, OriginAndExtra::derived_untracked, OriginAndExtra::new_derived_with_kind, OriginAndExtra::allocate_derived_with_header, SliceWithHeader::allocate, SliceWithHeaderBuilder::push/extend/finish, PackedQueryEdge::new, PackedQueryEdge::edge, OriginAndExtra::origin, SliceWithHeader::slice, QueryEdges::iter, QueryEdgeIter::next/len, QueryEdge::key, QueryEdge::kind, OriginAndExtra::drop"
/// C25-O2: a stored origin with 0 symbolic edges (no extra data) decodes to exactly the same edges, order and kinds; freed on drop; both the compact and the wide layout are exercised (cover witnesses).
#[kani::proof]
#[kani::unwind(3)]
fn c25_o2_fwd_n0() {
    let raw: [RawEdge; 0] = [];
    let u: bool = kani::any();
    let origin = build::<0>(raw, u, None);
    check_forward(&origin, &raw, u);
    check_extra(&origin, None);
    kani::cover!(u);
    kani::cover!(!u);
    drop(origin);
}

// @verif prop=C25,C23 obl=O2 tier=quick bounds="all values of every edge field (ingredient <= 0x7FFF_FFFF, index < Id::MAX_U32, any generation, both kinds); exactly 1 edges; both derived kinds"
// @+ encodes="OriginAndExtra::derived, OriginAndExtra::derived_untracked, OriginAndExtra::new_derived_with_kind, OriginAndExtra::allocate_derived_with_header, SliceWithHeader::allocate, SliceWithHeaderBuilder::push/extend/finish, PackedQueryEdge::new, PackedQueryEdge::edge, OriginAndExtra::origin, SliceWithHeader::slice, QueryEdges::iter, QueryEdgeIter::next/len, QueryEdge::key, QueryEdge::kind, OriginAndExtra::drop"
/// C25-O2: a stored origin with 1 symbolic edges (no extra data) decodes to exactly the same edges, order and kinds; freed on drop; both the compact and the wide layout are exercised (cover witnesses).
#[kani::proof]
#[kani::unwind(4)]
fn c25_o2_fwd_n1() {
    let raw: [RawEdge; 1] = [RawEdge::any()];
    let u: bool = kani::any();
    let origin = build::<1>(raw, u, None);
    check_forward(&origin, &raw, u);
    check_extra(&origin, None);
    kani::cover!(is_packed_layout(stored_edges(&origin, u)));
    kani::cover!(!is_packed_layout(stored_edges(&origin, u)) && !raw[0].output);
    kani::cover!(raw[0].output);
    drop(origin);
}

// @verif prop=C25,C23 obl=O2 tier=quick bounds="all values of every edge field (ingredient <= 0x7FFF_FFFF, index < Id::MAX_U32, any generation, both kinds); exactly 2 edges; both derived kinds"
// @+ encodes="OriginAndExtra::derived, OriginAndExtra::derived_untracked, OriginAndExtra::new_derived_with_kind, OriginAndExtra::allocate_derived_with_header, SliceWithHeader::allocate, SliceWithHeaderBuilder::push/extend/finish, PackedQueryEdge::new, PackedQueryEdge::edge, OriginAndExtra::origin, SliceWithHeader::slice, QueryEdges::iter, QueryEdgeIter::next/len, QueryEdge::key, QueryEdge::kind, OriginAndExtra::drop"
/// C25-O2: a stored origin with 2 symbolic edges (no extra data) decodes to exactly the same edges, order and kinds; freed on drop; both the compact and the wide layout are exercised (cover witnesses).
#[kani::proof]
#[kani::unwind(5)]
fn c25_o2_fwd_n2() {
    let raw: [RawEdge; 2] = [RawEdge::any(), RawEdge::any()];
    let u: bool = kani::any();
    let origin = build::<2>(raw, u, None);
    check_forward(&origin, &raw, u);
    check_extra(&origin, None);
    kani::cover!(is_packed_layout(stored_edges(&origin, u)));
    kani::cover!(!is_packed_layout(stored_edges(&origin, u)) && !fits(raw[0]) && fits(raw[1])); // spill at position 0
    kani::cover!(!is_packed_layout(stored_edges(&origin, u)) && fits(raw[0]) && !fits(raw[1])); // spill at the last position
    drop(origin);
}

// @verif prop=C25 obl=O2 tier=thorough bounds="all values of every edge field (ingredient <= 0x7FFF_FFFF, index < Id::MAX_U32, any generation, both kinds); exactly 3 edges; both derived kinds"
// @+ encodes="OriginAndExtra::derived, OriginAndExtra::derived_untracked, OriginAndExtra::new_derived_with_kind, OriginAndExtra::allocate_derived_with_header, SliceWithHeader::allocate, SliceWithHeaderBuilder::push/extend/finish, PackedQueryEdge::new, PackedQueryEdge::edge, OriginAndExtra::origin, SliceWithHeader::slice, QueryEdges::iter, QueryEdgeIter::next/len, QueryEdge::key, QueryEdge::kind, OriginAndExtra::drop"
/// C25-O2: a stored origin with 3 symbolic edges (no extra data) decodes to exactly the same edges, order and kinds; freed on drop; both the compact and the wide layout are exercised (cover witnesses).
#[kani::proof]
#[kani::unwind(6)]
fn c25_o2_fwd_n3() {
    let raw: [RawEdge; 3] = [RawEdge::any(), RawEdge::any(), RawEdge::any()];
    let u: bool = kani::any();
    let origin = build::<3>(raw, u, None);
    check_forward(&origin, &raw, u);
    check_extra(&origin, None);
    kani::cover!(is_packed_layout(stored_edges(&origin, u)));
    kani::cover!(!is_packed_layout(stored_edges(&origin, u)) && fits(raw[0]) && fits(raw[1]));
    kani::cover!(!is_packed_layout(stored_edges(&origin, u)) && fits(raw[0]) && fits(raw[2]));
    drop(origin);
}

// @verif prop=C25 obl=O3 tier=quick bounds="all values of every edge field (ingredient <= 0x7FFF_FFFF, index < Id::MAX_U32, any generation, both kinds); exactly 0 edges; both derived kinds; extra data present with symbolic iteration stamp (iteration <= 200, any epoch) and cycle_converged flag, empty cycle heads / tracked-struct ids"
// @+ encodes="OriginAndExtra::derived, OriginAndExtra::derived_untracked, OriginAndExtra::new_derived_with_kind, OriginAndExtra::allocate_derived_with_header, SliceWithHeader::allocate, SliceWithHeaderBuilder::push/extend/finish, PackedQueryEdge::new, PackedQueryEdge::edge, OriginAndExtra::origin, SliceWithHeader::slice, QueryRevisionsExtra::new, OriginAndExtra::extra, QueryEdges::iter, QueryEdgeIter::next/len"
/// C25-O3: the same round trip when the allocation also carries extra revision data; the extra data reads back unchanged.
#[kani::proof]
#[kani::unwind(3)]
fn c25_o3_fwd_extra_n0() {
    let raw: [RawEdge; 0] = [];
    let u: bool = kani::any();
    let ex = Some((any_stamp(), kani::any()));
    let origin = build::<0>(raw, u, ex);
    check_forward(&origin, &raw, u);
    check_extra(&origin, ex);
    kani::cover!(u);
    kani::cover!(!u);
    std::mem::forget(origin);
}

// @verif prop=C25 obl=O3 tier=quick bounds="all values of every edge field (ingredient <= 0x7FFF_FFFF, index < Id::MAX_U32, any generation, both kinds); exactly 1 edges; both derived kinds; extra data present with symbolic iteration stamp (iteration <= 200, any epoch) and cycle_converged flag, empty cycle heads / tracked-struct ids"
// @+ encodes="OriginAndExtra::derived, OriginAndExtra::derived_untracked, OriginAndExtra::new_derived_with_kind, OriginAndExtra::allocate_derived_with_header, SliceWithHeader::allocate, SliceWithHeaderBuilder::push/extend/finish, PackedQueryEdge::new, PackedQueryEdge::edge, OriginAndExtra::origin, SliceWithHeader::slice, QueryRevisionsExtra::new, OriginAndExtra::extra, QueryEdges::iter, QueryEdgeIter::next/len"
/// C25-O3: the same round trip when the allocation also carries extra revision data; the extra data reads back unchanged.
#[kani::proof]
#[kani::unwind(4)]
fn c25_o3_fwd_extra_n1() {
    let raw: [RawEdge; 1] = [RawEdge::any()];
    let u: bool = kani::any();
    let ex = Some((any_stamp(), kani::any()));
    let origin = build::<1>(raw, u, ex);
    check_forward(&origin, &raw, u);
    check_extra(&origin, ex);
    kani::cover!(u && is_packed_layout(stored_edges(&origin, u)));
    kani::cover!(!u && !is_packed_layout(stored_edges(&origin, u)));
    std::mem::forget(origin);
}

// @verif prop=C25 obl=O3 tier=quick bounds="all values of every edge field (ingredient <= 0x7FFF_FFFF, index < Id::MAX_U32, any generation, both kinds); exactly 2 edges; both derived kinds; extra data present with symbolic iteration stamp (iteration <= 200, any epoch) and cycle_converged flag, empty cycle heads / tracked-struct ids"
// @+ encodes="OriginAndExtra::derived, OriginAndExtra::derived_untracked, OriginAndExtra::new_derived_with_kind, OriginAndExtra::allocate_derived_with_header, SliceWithHeader::allocate, SliceWithHeaderBuilder::push/extend/finish, PackedQueryEdge::new, PackedQueryEdge::edge, OriginAndExtra::origin, SliceWithHeader::slice, QueryRevisionsExtra::new, OriginAndExtra::extra, QueryEdges::iter, QueryEdgeIter::next/len"
/// C25-O3: the same round trip when the allocation also carries extra revision data; the extra data reads back unchanged.
#[kani::proof]
#[kani::unwind(5)]
fn c25_o3_fwd_extra_n2() {
    let raw: [RawEdge; 2] = [RawEdge::any(), RawEdge::any()];
    let u: bool = kani::any();
    let ex = Some((any_stamp(), kani::any()));
    let origin = build::<2>(raw, u, ex);
    check_forward(&origin, &raw, u);
    check_extra(&origin, ex);
    kani::cover!(u && is_packed_layout(stored_edges(&origin, u)));
    kani::cover!(!u && !is_packed_layout(stored_edges(&origin, u)));
    std::mem::forget(origin);
}

// @verif prop=C25 obl=O3 tier=thorough bounds="all values of every edge field (ingredient <= 0x7FFF_FFFF, index < Id::MAX_U32, any generation, both kinds); exactly 3 edges; both derived kinds; extra data present with symbolic iteration stamp (iteration <= 200, any epoch) and cycle_converged flag, empty cycle heads / tracked-struct ids"
// @+ encodes="OriginAndExtra::derived, OriginAndExtra::derived_untracked, OriginAndExtra::new_derived_with_kind, OriginAndExtra::allocate_derived_with_header, SliceWithHeader::allocate, SliceWithHeaderBuilder::push/extend/finish, PackedQueryEdge::new, PackedQueryEdge::edge, OriginAndExtra::origin, SliceWithHeader::slice, QueryRevisionsExtra::new, OriginAndExtra::extra, QueryEdges::iter, QueryEdgeIter::next/len"
/// C25-O3: the same round trip when the allocation also carries extra revision data; the extra data reads back unchanged.
#[kani::proof]
#[kani::unwind(6)]
fn c25_o3_fwd_extra_n3() {
    let raw: [RawEdge; 3] = [RawEdge::any(), RawEdge::any(), RawEdge::any()];
    let u: bool = kani::any();
    let ex = Some((any_stamp(), kani::any()));
    let origin = build::<3>(raw, u, ex);
    check_forward(&origin, &raw, u);
    check_extra(&origin, ex);
    kani::cover!(u && is_packed_layout(stored_edges(&origin, u)));
    kani::cover!(!u && !is_packed_layout(stored_edges(&origin, u)));
    std::mem::forget(origin);
}

// @verif prop=C25 obl=O2 tier=quick bounds="all values of every edge field (ingredient <= 0x7FFF_FFFF, index < Id::MAX_U32, any generation, both kinds); exactly 1 edges; both derived kinds"
// @+ encodes="OriginAndExtra::derived, OriginAndExtra::derived_untracked, OriginAndExtra::new_derived_with_kind, OriginAndExtra::allocate_derived_with_header, SliceWithHeader::allocate, SliceWithHeaderBuilder::push/extend/finish, PackedQueryEdge::new, PackedQueryEdge::edge, OriginAndExtra::origin, SliceWithHeader::slice, QueryEdgeIter::next_back"
/// C25-O2: reverse iteration over a stored origin yields the stored edges in reverse order.
#[kani::proof]
#[kani::unwind(4)]
fn c25_o2_bwd_n1() {
    let raw: [RawEdge; 1] = [RawEdge::any()];
    let u: bool = kani::any();
    let origin = build::<1>(raw, u, None);
    check_backward(&origin, &raw, u);
    kani::cover!(is_packed_layout(stored_edges(&origin, u)));
    kani::cover!(!is_packed_layout(stored_edges(&origin, u)));
    std::mem::forget(origin);
}

// @verif prop=C25 obl=O2 tier=quick bounds="all values of every edge field (ingredient <= 0x7FFF_FFFF, index < Id::MAX_U32, any generation, both kinds); exactly 2 edges; both derived kinds"
// @+ encodes="OriginAndExtra::derived, OriginAndExtra::derived_untracked, OriginAndExtra::new_derived_with_kind, OriginAndExtra::allocate_derived_with_header, SliceWithHeader::allocate, SliceWithHeaderBuilder::push/extend/finish, PackedQueryEdge::new, PackedQueryEdge::edge, OriginAndExtra::origin, SliceWithHeader::slice, QueryEdgeIter::next_back"
/// C25-O2: reverse iteration over a stored origin yields the stored edges in reverse order.
#[kani::proof]
#[kani::unwind(5)]
fn c25_o2_bwd_n2() {
    let raw: [RawEdge; 2] = [RawEdge::any(), RawEdge::any()];
    let u: bool = kani::any();
    let origin = build::<2>(raw, u, None);
    check_backward(&origin, &raw, u);
    kani::cover!(is_packed_layout(stored_edges(&origin, u)));
    kani::cover!(!is_packed_layout(stored_edges(&origin, u)));
    std::mem::forget(origin);
}

// @verif prop=C25 obl=O2 tier=thorough bounds="all values of every edge field (ingredient <= 0x7FFF_FFFF, index < Id::MAX_U32, any generation, both kinds); exactly 3 edges; both derived kinds"
// @+ encodes="OriginAndExtra::derived, OriginAndExtra::derived_untracked, OriginAndExtra::new_derived_with_kind, OriginAndExtra::allocate_derived_with_header, SliceWithHeader::allocate, SliceWithHeaderBuilder::push/extend/finish, PackedQueryEdge::new, PackedQueryEdge::edge, OriginAndExtra::origin, SliceWithHeader::slice, QueryEdgeIter::next_back"
/// C25-O2: reverse iteration over a stored origin yields the stored edges in reverse order.
#[kani::proof]
#[kani::unwind(6)]
fn c25_o2_bwd_n3() {
    let raw: [RawEdge; 3] = [RawEdge::any(), RawEdge::any(), RawEdge::any()];
    let u: bool = kani::any();
    let origin = build::<3>(raw, u, None);
    check_backward(&origin, &raw, u);
    kani::cover!(is_packed_layout(stored_edges(&origin, u)));
    kani::cover!(!is_packed_layout(stored_edges(&origin, u)));
    std::mem::forget(origin);
}

// @verif prop=C25 obl=O3 tier=thorough bounds="all values of every edge field (ingredient <= 0x7FFF_FFFF, index < Id::MAX_U32, any generation, both kinds); exactly 2 edges; both derived kinds; extra data present"
// @+ encodes="OriginAndExtra::derived, OriginAndExtra::derived_untracked, OriginAndExtra::new_derived_with_kind, OriginAndExtra::allocate_derived_with_header, SliceWithHeader::allocate, SliceWithHeaderBuilder::push/extend/finish, PackedQueryEdge::new, PackedQueryEdge::edge, OriginAndExtra::origin, SliceWithHeader::slice, QueryEdgeIter::next_back"
/// C25-O3: reverse iteration with co-allocated extra data.
#[kani::proof]
#[kani::unwind(5)]
fn c25_o3_bwd_extra_n2() {
    let raw: [RawEdge; 2] = [RawEdge::any(), RawEdge::any()];
    let u: bool = kani::any();
    let origin = build::<2>(raw, u, Some((any_stamp(), kani::any())));
    check_backward(&origin, &raw, u);
    kani::cover!(is_packed_layout(stored_edges(&origin, u)));
    kani::cover!(!is_packed_layout(stored_edges(&origin, u)));
    std::mem::forget(origin);
}

// @verif prop=C25 obl=O2 tier=quick bounds="all values of ingredient/index/generation of 1 edges; edge kinds fixed to the pattern i (all 2^1 patterns are separate harnesses); derived kind symbolic"
// @+ encodes="OriginAndExtra::derived, OriginAndExtra::derived_untracked, OriginAndExtra::new_derived_with_kind, OriginAndExtra::allocate_derived_with_header, SliceWithHeader::allocate, SliceWithHeaderBuilder::push/extend/finish, PackedQueryEdge::new, PackedQueryEdge::edge, OriginAndExtra::origin, SliceWithHeader::slice, QueryOriginRef::inputs, QueryOriginRef::outputs, QueryEdges::iter_outputs, output_edges"
/// C25-O2: inputs() and outputs() partition the stored keys and preserve order (kind pattern i).
#[kani::proof]
#[kani::unwind(4)]
fn c25_o2_partition_i() {
    let mut raw: [RawEdge; 1] = [RawEdge::any()];
    raw[0].output = false;
    let u: bool = kani::any();
    let origin = build::<1>(raw, u, None);
    check_partition(&origin, &raw);
    kani::cover!(is_packed_layout(stored_edges(&origin, u)) == true);
    std::mem::forget(origin);
}

// @verif prop=C25 obl=O2 tier=quick bounds="all values of ingredient/index/generation of 1 edges; edge kinds fixed to the pattern o (all 2^1 patterns are separate harnesses); derived kind symbolic"
// @+ encodes="OriginAndExtra::derived, OriginAndExtra::derived_untracked, OriginAndExtra::new_derived_with_kind, OriginAndExtra::allocate_derived_with_header, SliceWithHeader::allocate, SliceWithHeaderBuilder::push/extend/finish, PackedQueryEdge::new, PackedQueryEdge::edge, OriginAndExtra::origin, SliceWithHeader::slice, QueryOriginRef::inputs, QueryOriginRef::outputs, QueryEdges::iter_outputs, output_edges"
/// C25-O2: inputs() and outputs() partition the stored keys and preserve order (kind pattern o).
#[kani::proof]
#[kani::unwind(4)]
fn c25_o2_partition_o() {
    let mut raw: [RawEdge; 1] = [RawEdge::any()];
    raw[0].output = true;
    let u: bool = kani::any();
    let origin = build::<1>(raw, u, None);
    check_partition(&origin, &raw);
    kani::cover!(is_packed_layout(stored_edges(&origin, u)) == false);
    std::mem::forget(origin);
}

// @verif prop=C25 obl=O2 tier=thorough bounds="all values of ingredient/index/generation of 2 edges; edge kinds fixed to the pattern ii (all 2^2 patterns are separate harnesses); derived kind symbolic"
// @+ encodes="OriginAndExtra::derived, OriginAndExtra::derived_untracked, OriginAndExtra::new_derived_with_kind, OriginAndExtra::allocate_derived_with_header, SliceWithHeader::allocate, SliceWithHeaderBuilder::push/extend/finish, PackedQueryEdge::new, PackedQueryEdge::edge, OriginAndExtra::origin, SliceWithHeader::slice, QueryOriginRef::inputs, QueryOriginRef::outputs, QueryEdges::iter_outputs, output_edges"
/// C25-O2: inputs() and outputs() partition the stored keys and preserve order (kind pattern ii).
#[kani::proof]
#[kani::unwind(5)]
fn c25_o2_partition_ii() {
    let mut raw: [RawEdge; 2] = [RawEdge::any(), RawEdge::any()];
    raw[0].output = false;
    raw[1].output = false;
    let u: bool = kani::any();
    let origin = build::<2>(raw, u, None);
    check_partition(&origin, &raw);
    kani::cover!(is_packed_layout(stored_edges(&origin, u)) == true);
    std::mem::forget(origin);
}

// @verif prop=C25 obl=O2 tier=quick bounds="all values of ingredient/index/generation of 2 edges; edge kinds fixed to the pattern io (all 2^2 patterns are separate harnesses); derived kind symbolic"
// @+ encodes="OriginAndExtra::derived, OriginAndExtra::derived_untracked, OriginAndExtra::new_derived_with_kind, OriginAndExtra::allocate_derived_with_header, SliceWithHeader::allocate, SliceWithHeaderBuilder::push/extend/finish, PackedQueryEdge::new, PackedQueryEdge::edge, OriginAndExtra::origin, SliceWithHeader::slice, QueryOriginRef::inputs, QueryOriginRef::outputs, QueryEdges::iter_outputs, output_edges"
/// C25-O2: inputs() and outputs() partition the stored keys and preserve order (kind pattern io).
#[kani::proof]
#[kani::unwind(5)]
fn c25_o2_partition_io() {
    let mut raw: [RawEdge; 2] = [RawEdge::any(), RawEdge::any()];
    raw[0].output = false;
    raw[1].output = true;
    let u: bool = kani::any();
    let origin = build::<2>(raw, u, None);
    check_partition(&origin, &raw);
    kani::cover!(is_packed_layout(stored_edges(&origin, u)) == false);
    std::mem::forget(origin);
}

// @verif prop=C25 obl=O2 tier=thorough bounds="all values of ingredient/index/generation of 2 edges; edge kinds fixed to the pattern oi (all 2^2 patterns are separate harnesses); derived kind symbolic"
// @+ encodes="OriginAndExtra::derived, OriginAndExtra::derived_untracked, OriginAndExtra::new_derived_with_kind, OriginAndExtra::allocate_derived_with_header, SliceWithHeader::allocate, SliceWithHeaderBuilder::push/extend/finish, PackedQueryEdge::new, PackedQueryEdge::edge, OriginAndExtra::origin, SliceWithHeader::slice, QueryOriginRef::inputs, QueryOriginRef::outputs, QueryEdges::iter_outputs, output_edges"
/// C25-O2: inputs() and outputs() partition the stored keys and preserve order (kind pattern oi).
#[kani::proof]
#[kani::unwind(5)]
fn c25_o2_partition_oi() {
    let mut raw: [RawEdge; 2] = [RawEdge::any(), RawEdge::any()];
    raw[0].output = true;
    raw[1].output = false;
    let u: bool = kani::any();
    let origin = build::<2>(raw, u, None);
    check_partition(&origin, &raw);
    kani::cover!(is_packed_layout(stored_edges(&origin, u)) == false);
    std::mem::forget(origin);
}

// @verif prop=C25 obl=O2 tier=thorough bounds="all values of ingredient/index/generation of 2 edges; edge kinds fixed to the pattern oo (all 2^2 patterns are separate harnesses); derived kind symbolic"
// @+ encodes="OriginAndExtra::derived, OriginAndExtra::derived_untracked, OriginAndExtra::new_derived_with_kind, OriginAndExtra::allocate_derived_with_header, SliceWithHeader::allocate, SliceWithHeaderBuilder::push/extend/finish, PackedQueryEdge::new, PackedQueryEdge::edge, OriginAndExtra::origin, SliceWithHeader::slice, QueryOriginRef::inputs, QueryOriginRef::outputs, QueryEdges::iter_outputs, output_edges"
/// C25-O2: inputs() and outputs() partition the stored keys and preserve order (kind pattern oo).
#[kani::proof]
#[kani::unwind(5)]
fn c25_o2_partition_oo() {
    let mut raw: [RawEdge; 2] = [RawEdge::any(), RawEdge::any()];
    raw[0].output = true;
    raw[1].output = true;
    let u: bool = kani::any();
    let origin = build::<2>(raw, u, None);
    check_partition(&origin, &raw);
    kani::cover!(is_packed_layout(stored_edges(&origin, u)) == false);
    std::mem::forget(origin);
}

// @verif prop=C25 obl=O2 tier=thorough bounds="all values of ingredient/index/generation of 3 edges; edge kinds fixed to the pattern iii (all 2^3 patterns are separate harnesses); derived kind symbolic"
// @+ encodes="OriginAndExtra::derived, OriginAndExtra::derived_untracked, OriginAndExtra::new_derived_with_kind, OriginAndExtra::allocate_derived_with_header, SliceWithHeader::allocate, SliceWithHeaderBuilder::push/extend/finish, PackedQueryEdge::new, PackedQueryEdge::edge, OriginAndExtra::origin, SliceWithHeader::slice, QueryOriginRef::inputs, QueryOriginRef::outputs, QueryEdges::iter_outputs, output_edges"
/// C25-O2: inputs() and outputs() partition the stored keys and preserve order (kind pattern iii).
#[kani::proof]
#[kani::unwind(6)]
fn c25_o2_partition_iii() {
    let mut raw: [RawEdge; 3] = [RawEdge::any(), RawEdge::any(), RawEdge::any()];
    raw[0].output = false;
    raw[1].output = false;
    raw[2].output = false;
    let u: bool = kani::any();
    let origin = build::<3>(raw, u, None);
    check_partition(&origin, &raw);
    kani::cover!(is_packed_layout(stored_edges(&origin, u)) == true);
    std::mem::forget(origin);
}

// @verif prop=C25 obl=O2 tier=thorough bounds="all values of ingredient/index/generation of 3 edges; edge kinds fixed to the pattern iio (all 2^3 patterns are separate harnesses); derived kind symbolic"
// @+ encodes="OriginAndExtra::derived, OriginAndExtra::derived_untracked, OriginAndExtra::new_derived_with_kind, OriginAndExtra::allocate_derived_with_header, SliceWithHeader::allocate, SliceWithHeaderBuilder::push/extend/finish, PackedQueryEdge::new, PackedQueryEdge::edge, OriginAndExtra::origin, SliceWithHeader::slice, QueryOriginRef::inputs, QueryOriginRef::outputs, QueryEdges::iter_outputs, output_edges"
/// C25-O2: inputs() and outputs() partition the stored keys and preserve order (kind pattern iio).
#[kani::proof]
#[kani::unwind(6)]
fn c25_o2_partition_iio() {
    let mut raw: [RawEdge; 3] = [RawEdge::any(), RawEdge::any(), RawEdge::any()];
    raw[0].output = false;
    raw[1].output = false;
    raw[2].output = true;
    let u: bool = kani::any();
    let origin = build::<3>(raw, u, None);
    check_partition(&origin, &raw);
    kani::cover!(is_packed_layout(stored_edges(&origin, u)) == false);
    std::mem::forget(origin);
}

// @verif prop=C25 obl=O2 tier=thorough bounds="all values of ingredient/index/generation of 3 edges; edge kinds fixed to the pattern ioi (all 2^3 patterns are separate harnesses); derived kind symbolic"
// @+ encodes="OriginAndExtra::derived, OriginAndExtra::derived_untracked, OriginAndExtra::new_derived_with_kind, OriginAndExtra::allocate_derived_with_header, SliceWithHeader::allocate, SliceWithHeaderBuilder::push/extend/finish, PackedQueryEdge::new, PackedQueryEdge::edge, OriginAndExtra::origin, SliceWithHeader::slice, QueryOriginRef::inputs, QueryOriginRef::outputs, QueryEdges::iter_outputs, output_edges"
/// C25-O2: inputs() and outputs() partition the stored keys and preserve order (kind pattern ioi).
#[kani::proof]
#[kani::unwind(6)]
fn c25_o2_partition_ioi() {
    let mut raw: [RawEdge; 3] = [RawEdge::any(), RawEdge::any(), RawEdge::any()];
    raw[0].output = false;
    raw[1].output = true;
    raw[2].output = false;
    let u: bool = kani::any();
    let origin = build::<3>(raw, u, None);
    check_partition(&origin, &raw);
    kani::cover!(is_packed_layout(stored_edges(&origin, u)) == false);
    std::mem::forget(origin);
}

// @verif prop=C25 obl=O2 tier=thorough bounds="all values of ingredient/index/generation of 3 edges; edge kinds fixed to the pattern ioo (all 2^3 patterns are separate harnesses); derived kind symbolic"
// @+ encodes="OriginAndExtra::derived, OriginAndExtra::derived_untracked, OriginAndExtra::new_derived_with_kind, OriginAndExtra::allocate_derived_with_header, SliceWithHeader::allocate, SliceWithHeaderBuilder::push/extend/finish, PackedQueryEdge::new, PackedQueryEdge::edge, OriginAndExtra::origin, SliceWithHeader::slice, QueryOriginRef::inputs, QueryOriginRef::outputs, QueryEdges::iter_outputs, output_edges"
/// C25-O2: inputs() and outputs() partition the stored keys and preserve order (kind pattern ioo).
#[kani::proof]
#[kani::unwind(6)]
fn c25_o2_partition_ioo() {
    let mut raw: [RawEdge; 3] = [RawEdge::any(), RawEdge::any(), RawEdge::any()];
    raw[0].output = false;
    raw[1].output = true;
    raw[2].output = true;
    let u: bool = kani::any();
    let origin = build::<3>(raw, u, None);
    check_partition(&origin, &raw);
    kani::cover!(is_packed_layout(stored_edges(&origin, u)) == false);
    std::mem::forget(origin);
}

// @verif prop=C25 obl=O2 tier=thorough bounds="all values of ingredient/index/generation of 3 edges; edge kinds fixed to the pattern oii (all 2^3 patterns are separate harnesses); derived kind symbolic"
// @+ encodes="OriginAndExtra::derived, OriginAndExtra::derived_untracked, OriginAndExtra::new_derived_with_kind, OriginAndExtra::allocate_derived_with_header, SliceWithHeader::allocate, SliceWithHeaderBuilder::push/extend/finish, PackedQueryEdge::new, PackedQueryEdge::edge, OriginAndExtra::origin, SliceWithHeader::slice, QueryOriginRef::inputs, QueryOriginRef::outputs, QueryEdges::iter_outputs, output_edges"
/// C25-O2: inputs() and outputs() partition the stored keys and preserve order (kind pattern oii).
#[kani::proof]
#[kani::unwind(6)]
fn c25_o2_partition_oii() {
    let mut raw: [RawEdge; 3] = [RawEdge::any(), RawEdge::any(), RawEdge::any()];
    raw[0].output = true;
    raw[1].output = false;
    raw[2].output = false;
    let u: bool = kani::any();
    let origin = build::<3>(raw, u, None);
    check_partition(&origin, &raw);
    kani::cover!(is_packed_layout(stored_edges(&origin, u)) == false);
    std::mem::forget(origin);
}

// @verif prop=C25 obl=O2 tier=thorough bounds="all values of ingredient/index/generation of 3 edges; edge kinds fixed to the pattern oio (all 2^3 patterns are separate harnesses); derived kind symbolic"
// @+ encodes="OriginAndExtra::derived, OriginAndExtra::derived_untracked, OriginAndExtra::new_derived_with_kind, OriginAndExtra::allocate_derived_with_header, SliceWithHeader::allocate, SliceWithHeaderBuilder::push/extend/finish, PackedQueryEdge::new, PackedQueryEdge::edge, OriginAndExtra::origin, SliceWithHeader::slice, QueryOriginRef::inputs, QueryOriginRef::outputs, QueryEdges::iter_outputs, output_edges"
/// C25-O2: inputs() and outputs() partition the stored keys and preserve order (kind pattern oio).
#[kani::proof]
#[kani::unwind(6)]
fn c25_o2_partition_oio() {
    let mut raw: [RawEdge; 3] = [RawEdge::any(), RawEdge::any(), RawEdge::any()];
    raw[0].output = true;
    raw[1].output = false;
    raw[2].output = true;
    let u: bool = kani::any();
    let origin = build::<3>(raw, u, None);
    check_partition(&origin, &raw);
    kani::cover!(is_packed_layout(stored_edges(&origin, u)) == false);
    std::mem::forget(origin);
}

// @verif prop=C25 obl=O2 tier=thorough bounds="all values of ingredient/index/generation of 3 edges; edge kinds fixed to the pattern ooi (all 2^3 patterns are separate harnesses); derived kind symbolic"
// @+ encodes="OriginAndExtra::derived, OriginAndExtra::derived_untracked, OriginAndExtra::new_derived_with_kind, OriginAndExtra::allocate_derived_with_header, SliceWithHeader::allocate, SliceWithHeaderBuilder::push/extend/finish, PackedQueryEdge::new, PackedQueryEdge::edge, OriginAndExtra::origin, SliceWithHeader::slice, QueryOriginRef::inputs, QueryOriginRef::outputs, QueryEdges::iter_outputs, output_edges"
/// C25-O2: inputs() and outputs() partition the stored keys and preserve order (kind pattern ooi).
#[kani::proof]
#[kani::unwind(6)]
fn c25_o2_partition_ooi() {
    let mut raw: [RawEdge; 3] = [RawEdge::any(), RawEdge::any(), RawEdge::any()];
    raw[0].output = true;
    raw[1].output = true;
    raw[2].output = false;
    let u: bool = kani::any();
    let origin = build::<3>(raw, u, None);
    check_partition(&origin, &raw);
    kani::cover!(is_packed_layout(stored_edges(&origin, u)) == false);
    std::mem::forget(origin);
}

// @verif prop=C25 obl=O2 tier=thorough bounds="all values of ingredient/index/generation of 3 edges; edge kinds fixed to the pattern ooo (all 2^3 patterns are separate harnesses); derived kind symbolic"
// @+ encodes="OriginAndExtra::derived, OriginAndExtra::derived_untracked, OriginAndExtra::new_derived_with_kind, OriginAndExtra::allocate_derived_with_header, SliceWithHeader::allocate, SliceWithHeaderBuilder::push/extend/finish, PackedQueryEdge::new, PackedQueryEdge::edge, OriginAndExtra::origin, SliceWithHeader::slice, QueryOriginRef::inputs, QueryOriginRef::outputs, QueryEdges::iter_outputs, output_edges"
/// C25-O2: inputs() and outputs() partition the stored keys and preserve order (kind pattern ooo).
#[kani::proof]
#[kani::unwind(6)]
fn c25_o2_partition_ooo() {
    let mut raw: [RawEdge; 3] = [RawEdge::any(), RawEdge::any(), RawEdge::any()];
    raw[0].output = true;
    raw[1].output = true;
    raw[2].output = true;
    let u: bool = kani::any();
    let origin = build::<3>(raw, u, None);
    check_partition(&origin, &raw);
    kani::cover!(is_packed_layout(stored_edges(&origin, u)) == false);
    std::mem::forget(origin);
}

fn clear_edges_case<const N: usize>(raw: [RawEdge; N], extra: Option<(IterationStamp, bool)>) {
    let u: bool = kani::any();
    let mut origin = build::<N>(raw, u, extra);
    origin.clear_edges();
    let stored = stored_edges(&origin, u);
    assert!(stored.iter().next().is_none(), "C25: clear_edges left an edge");
    assert!(stored.iter().len() == 0);
    check_extra(&origin, extra);
    kani::cover!(u);
    kani::cover!(!u);
    drop(origin);
}

// @verif prop=C25,C23 obl=O3 tier=quick bounds="all values of 2 edges; extra data present (symbolic stamp/flag); both derived kinds"
// @+ encodes="OriginAndExtra::clear_edges, OriginAndExtra::extra_mut, QueryRevisionsExtraInner::empty, OriginAndExtra::new_derived_with_kind, OriginAndExtra::drop"
/// C25-O3: clearing the edges of a 2-edge origin keeps the origin kind and the extra data and leaves no edge.
#[kani::proof]
#[kani::unwind(5)]
fn c25_o3_clear_edges_n2_extra() {
    clear_edges_case::<2>([RawEdge::any(), RawEdge::any()], Some((any_stamp(), kani::any())));
}

// @verif prop=C25,C23 obl=O3 tier=quick bounds="all values of 1 edge; no extra data; both derived kinds"
// @+ encodes="OriginAndExtra::clear_edges, OriginAndExtra::new_derived_with_kind, OriginAndExtra::drop"
/// C25-O3: clearing the edges of a 1-edge origin without extra data.
#[kani::proof]
#[kani::unwind(4)]
fn c25_o3_clear_edges_n1_plain() {
    clear_edges_case::<1>([RawEdge::any()], None);
}

// @verif prop=C25 obl=O3 tier=quick bounds="0 edges; extra data present; both derived kinds"
// @+ encodes="OriginAndExtra::clear_edges"
/// C25-O3: clearing an origin that has no edges is the identity (extra data kept).
#[kani::proof]
#[kani::unwind(3)]
fn c25_o3_clear_edges_n0_extra() {
    clear_edges_case::<0>([], Some((any_stamp(), kani::any())));
}

// @verif prop=NONE obl=O3 tier=thorough bounds="PROBE (CBMC aborts above 32 GB): all values of 1 edge; both derived kinds; symbolic stamp"
// @+ encodes="QueryRevisions::set_cycle_heads, OriginAndExtra::get_or_insert_extra, QueryRevisions::iteration, QueryRevisions::set_cycle_converged, QueryRevisions::cycle_converged, OriginAndExtra::derived (re-encoding from a decoded iterator)"
/// C25-O3: inserting extra data into an origin that has none re-encodes it; edges, kind and layout rule survive.
#[kani::proof]
#[kani::unwind(4)]
fn c25_o3_insert_extra_keeps_edges() {
    let raw = [RawEdge::any()];
    let u: bool = kani::any();
    let origin = build::<1>(raw, u, None);
    let mut revisions = QueryRevisions {
        changed_at: Revision::start(),
        durability: Durability::LOW,
        origin_and_extra: origin,
        #[cfg(feature = "accumulator")]
        accumulated_inputs: Default::default(),
        verified_final: AtomicBool::new(true),
    };
    let stamp = any_stamp();
    revisions.set_cycle_heads(CycleHeads::default(), stamp);
    assert!(revisions.iteration() == stamp, "C25: iteration stamp not stored");
    check_forward(&revisions.origin_and_extra, &raw, u);
    let conv: bool = kani::any();
    revisions.set_cycle_converged(conv);
    assert!(revisions.cycle_converged() == conv);
    kani::cover!(is_packed_layout(stored_edges(&revisions.origin_and_extra, u)));
    kani::cover!(raw[0].output);
    std::mem::forget(revisions);
}


// @verif prop=C25,C23 obl=O3 tier=quick bounds="all values: every valid assigning key; with and without inserted extra data"
// @+ encodes="OriginAndExtra::assigned, OriginAndExtra::assigned_with_extra, OriginAndExtra::get_or_insert_extra, OriginAndExtra::origin, OriginAndExtra::extra, OriginAndExtra::drop"
/// C25-O3: an assigned origin returns the assigning key, also after extra data is inserted.
#[kani::proof]
#[kani::unwind(3)]
fn c25_o3_assigned_keeps_key() {
    let k = any_key();
    let mut origin = OriginAndExtra::assigned(k);
    match origin.origin() {
        QueryOriginRef::Assigned(back) => { assert!(back == k, "C25: assigned key changed") }
        _ => panic!("C25: assigned origin decoded as derived"),
    }
    assert!(origin.extra().is_none());
    assert!(origin.origin().edges().iter().next().is_none());
    if kani::any() {
        let stamp = any_stamp();
        let inner = origin.get_or_insert_extra();
        inner.iteration = stamp.into();
        match origin.origin() {
            QueryOriginRef::Assigned(back) => { assert!(back == k, "C25: assigned key changed by extra") }
            _ => panic!("C25: assigned origin decoded as derived"),
        }
        match origin.extra() {
            Some(inner) => { assert!(inner.iteration.load() == stamp) }
            None => panic!("C25: extra lost"),
        }
        kani::cover!(k.key_index().generation() == u32::MAX);
    }
    drop(origin);
}

// ---------------------------------------------------------------------------------------------
// C02-O7: edge discarding for never-change memos
// ---------------------------------------------------------------------------------------------

// @verif prop=C02 obl=O7 tier=quick bounds="all values of 2 edges; every durability; origin Derived or DerivedUntracked; with or without extra data (no cycle heads)"
// @+ encodes="QueryRevisions::discard_edges_if_never_change, OriginAndExtra::clear_edges, QueryRevisions::cycle_heads"
/// C02-O7: edges are discarded only for NEVER_CHANGE, fully tracked, cycle-free memos; otherwise every edge is kept;
/// kind and extra data always survive.
#[kani::proof]
#[kani::unwind(5)]
#[kani::stub(real_catch_unwind, stub_catch_unwind)]
fn c02_o7_discard_edges_only_if_never_change() {
    let raw = [RawEdge::any(), RawEdge::any()];
    let u: bool = kani::any();
    let d = any_durability();
    let with_extra: bool = kani::any();
    let extra = if with_extra { Some((crate::cycle::verif::stamp(0, 0), false)) } else { None };
    let origin = build::<2>(raw, u, extra);
    let mut revisions = QueryRevisions {
        changed_at: Revision::start(),
        durability: d,
        origin_and_extra: origin,
        #[cfg(feature = "accumulator")]
        accumulated_inputs: Default::default(),
        verified_final: AtomicBool::new(true),
    };
    revisions.discard_edges_if_never_change();
    assert!(revisions.durability == d);
    let discard = d == Durability::NEVER_CHANGE && !u;
    if discard {
        let stored = stored_edges(&revisions.origin_and_extra, u);
        assert!(stored.iter().next().is_none());
    } else {
        check_forward(&revisions.origin_and_extra, &raw, u);
    }
    check_extra(&revisions.origin_and_extra, extra);
    kani::cover!(discard && with_extra);
    kani::cover!(!discard && d == Durability::NEVER_CHANGE);
    kani::cover!(d == Durability::HIGH);
    std::mem::forget(revisions);
}

// @verif prop=C02 obl=O7 tier=quick bounds="NEVER_CHANGE Derived memo with one cycle head; all values of 1 edge"
// @+ encodes="QueryRevisions::discard_edges_if_never_change, QueryRevisions::set_cycle_heads, QueryRevisions::cycle_heads"
/// C02-O7: a memo that still has cycle heads keeps its edges even when NEVER_CHANGE.
#[kani::proof]
#[kani::unwind(5)]
#[kani::stub(real_catch_unwind, stub_catch_unwind)]
fn c02_o7_cycle_heads_keep_edges() {
    let raw = [RawEdge::any()];
    let s = crate::cycle::verif::stamp(0, 0);
    // extra data that carries one cycle head, built the way `prepare_completion` builds it
    let extra = QueryRevisionsExtra::new(
        #[cfg(feature = "accumulator")]
        AccumulatedMap::default(),
        ThinVec::default(),
        CycleHeads::initial(key(9, 0, 0), s),
        s,
        false,
    );
    let origin = OriginAndExtra::derived([raw[0].edge()].into_iter(), extra);
    let mut revisions = QueryRevisions {
        changed_at: Revision::start(),
        durability: Durability::NEVER_CHANGE,
        origin_and_extra: origin,
        #[cfg(feature = "accumulator")]
        accumulated_inputs: Default::default(),
        verified_final: AtomicBool::new(false),
    };
    assert!(!revisions.cycle_heads().is_empty());
    revisions.discard_edges_if_never_change();
    check_forward(&revisions.origin_and_extra, &raw, false);
    assert!(!revisions.cycle_heads().is_empty());
    std::mem::forget(revisions);
}

