// C21 token state machine (sub-file of the zalsa_local hook)
use crate::verif_prelude::*;

// ---------------------------------------------------------------------------------------------
// C21: CancellationToken bit state machine
// ---------------------------------------------------------------------------------------------

/// One symbolic operation on a token / its owning handle.
fn token_step(local: &ZalsaLocal, token: &CancellationToken, model: &mut (bool, bool)) {
    let op: u8 = kani::any();
    kani::assume(op < 5);
    match op {
        0 => {
            token.cancel();
            model.0 = true;
        }
        1 => {
            let prev = local.set_cancellation_disabled(true);
            assert!(prev == model.1, "C21: set_cancellation_disabled returned a wrong previous state");
            model.1 = true;
        }
        2 => {
            let prev = local.set_cancellation_disabled(false);
            assert!(prev == model.1, "C21: set_cancellation_disabled returned a wrong previous state");
            model.1 = false;
        }
        3 => {
            local.uncancel();
            *model = (false, false);
        }
        _ => {}
    }
    assert!(token.is_cancelled() == model.0, "C21: cancelled bit differs from the reference state");
    assert!(
        local.should_trigger_local_cancellation() == (model.0 && !model.1),
        "C21: cancellation triggers iff cancelled and not disabled"
    );
}

// @verif prop=C21 obl=O1 tier=quick bounds="every sequence of <= 4 operations from {cancel, disable, enable, uncancel(reset), noop} on a fresh handle; the token clone shares state with the handle"
// @+ encodes="CancellationToken::cancel, CancellationToken::is_cancelled, CancellationToken::set_cancellation_disabled, CancellationToken::should_trigger_local_cancellation, CancellationToken::reset, ZalsaLocal::cancellation_token, ZalsaLocal::uncancel, ZalsaLocal::set_cancellation_disabled, ZalsaLocal::should_trigger_local_cancellation"
/// C21-O1: the token is a two-bit state machine: cancellation triggers iff cancelled and not disabled;
/// disabling never changes the cancelled bit and reports the previous disabled bit; reset clears both.
#[kani::proof]
#[kani::unwind(6)]
#[kani::stub(real_catch_unwind, stub_catch_unwind)]
fn c21_o1_token_state_machine() {
    let local = ZalsaLocal::new();
    let token = local.cancellation_token();
    let mut model = (false, false);
    assert!(!token.is_cancelled() && !local.should_trigger_local_cancellation());
    let mut i = 0;
    while i < 4 {
        token_step(&local, &token, &mut model);
        i += 1;
    }
    kani::cover!(model.0 && model.1);
    kani::cover!(model.0 && !model.1);
    kani::cover!(!model.0 && model.1);
    std::mem::forget(token);
    std::mem::forget(local);
}

