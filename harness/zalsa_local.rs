// Kani harnesses for /repo/src/zalsa_local.rs (compiled as `crate::zalsa_local::verif`).
// Properties: C25 (edge storage round trip), C23 (raw-pointer kernels), C21 (token state
// machine), C02-O7 (edge discarding).

use crate::verif_prelude::*;

// ---------------------------------------------------------------------------------------------
// shared vocabulary
// ---------------------------------------------------------------------------------------------

/// The raw symbolic description of one dependency edge: the oracle side of every round trip.
#[derive(Copy, Clone)]
struct RawEdge {
    ingredient: u32,
    index: u32,
    generation: u32,
    output: bool,
}

impl RawEdge {
    /// Every value a real edge can have: ingredient <= 0x7FFF_FFFF (`IngredientIndex::MAX_INDEX`),
    /// index < `Id::MAX_U32`, every generation, both kinds.
    fn any() -> Self {
        let e = RawEdge {
            ingredient: kani::any(),
            index: kani::any(),
            generation: kani::any(),
            output: kani::any(),
        };
        kani::assume(e.ingredient <= 0x7FFF_FFFF);
        kani::assume(e.index < Id::MAX_U32);
        e
    }

    fn key(self) -> DatabaseKeyIndex {
        key(self.ingredient, self.index, self.generation)
    }

    fn edge(self) -> QueryEdge {
        if self.output {
            QueryEdge::output(self.key())
        } else {
            QueryEdge::input(self.key())
        }
    }

    /// Specification of "fits the compact encoding" (from the doc comment of `PackedQueryEdge`).
    fn packable(self) -> bool {
        !self.output && self.ingredient <= 0xFFF && self.generation <= 0xF_FFFF
    }

    /// Does the decoded edge `e` denote exactly this raw edge (observed through the public
    /// accessors `key()`/`kind()` only)?
    fn matches(self, e: QueryEdge) -> bool {
        let k = e.key();
        k.ingredient_index().as_u32() == self.ingredient
            && k.key_index().index() == self.index
            && k.key_index().generation() == self.generation
            && (e.kind() == QueryEdgeKind::Output) == self.output
    }

    fn matches_key(self, k: DatabaseKeyIndex) -> bool {
        k.ingredient_index().as_u32() == self.ingredient
            && k.key_index().index() == self.index
            && k.key_index().generation() == self.generation
    }
}

fn any_stamp() -> IterationStamp {
    crate::cycle::verif::any_stamp()
}

fn some_extra(iteration: IterationStamp, converged: bool) -> QueryRevisionsExtra {
    let mut extra = QueryRevisionsExtra::new(
        #[cfg(feature = "accumulator")]
        AccumulatedMap::default(),
        ThinVec::default(),
        CycleHeads::default(),
        iteration,
        true,
    );
    if let Some(inner) = extra.0.as_mut() {
        inner.cycle_converged = converged;
    }
    extra
}

fn is_packed_layout(edges: QueryEdges<'_>) -> bool {
    matches!(edges.data, QueryEdgesData::Packed(_))
}

fn build<const N: usize>(raw: [RawEdge; N], untracked: bool, extra: Option<(IterationStamp, bool)>) -> OriginAndExtra {
    let edges: [QueryEdge; N] = core::array::from_fn(|i| raw[i].edge());
    let ex = match extra {
        Some((it, conv)) => some_extra(it, conv),
        None => QueryRevisionsExtra::default(),
    };
    if untracked {
        OriginAndExtra::derived_untracked(edges.into_iter(), ex)
    } else {
        OriginAndExtra::derived(edges.into_iter(), ex)
    }
}

/// The stored edge view, after checking that the origin kind is the one that was stored.
fn stored_edges(origin: &OriginAndExtra, untracked: bool) -> QueryEdges<'_> {
    assert!(origin.is_derived_untracked() == untracked, "C25: origin kind changed");
    match origin.origin() {
        QueryOriginRef::Derived(e) => {
            assert!(!untracked, "C25: derived-untracked origin decoded as derived");
            e
        }
        QueryOriginRef::DerivedUntracked(e) => {
            assert!(untracked, "C25: derived origin decoded as derived-untracked");
            e
        }
        QueryOriginRef::Assigned(_) => panic!("C25: derived origin decoded as assigned"),
    }
}

fn all_packable<const N: usize>(raw: &[RawEdge; N]) -> bool {
    let mut all = true;
    let mut i = 0;
    while i < N {
        all &= raw[i].packable();
        i += 1;
    }
    all
}

/// Aspect A: same edges, same order, same kinds (forward), edge count, layout rule, kind.
fn check_forward<const N: usize>(origin: &OriginAndExtra, raw: &[RawEdge; N], untracked: bool) {
    let stored = stored_edges(origin, untracked);
    let mut it = stored.iter();
    assert!(it.len() == N, "C25: stored edge count differs");
    let mut i = 0;
    while i < N {
        match it.next() {
            Some(e) => { assert!(raw[i].matches(e), "C25: forward decoding differs from the stored edge") }
            None => panic!("C25: stored edges end early"),
        }
        i += 1;
    }
    assert!(it.next().is_none(), "C25: extra edge decoded");
    // compact layout iff every edge fits (documented rule; it is what makes the boundary values matter)
    assert!(is_packed_layout(stored) == all_packable(raw), "C25: layout choice differs from the documented rule");
}

/// Aspect B: reverse iteration is the reverse.
fn check_backward<const N: usize>(origin: &OriginAndExtra, raw: &[RawEdge; N], untracked: bool) {
    let stored = stored_edges(origin, untracked);
    let mut it = stored.iter();
    let mut i = N;
    while i > 0 {
        i -= 1;
        match it.next_back() {
            Some(e) => { assert!(raw[i].matches(e), "C25: backward decoding differs from the stored edge") }
            None => panic!("C25: stored edges end early (backward)"),
        }
    }
    assert!(it.next_back().is_none(), "C25: extra edge decoded (backward)");
}

/// Aspect C: inputs()/outputs() partition the keys, preserving order.
fn check_partition<const N: usize>(origin: &OriginAndExtra, raw: &[RawEdge; N]) {
    let view = origin.origin();
    let mut inputs = view.inputs();
    let mut outputs = view.outputs();
    let mut i = 0;
    while i < N {
        if raw[i].output {
            match outputs.next() {
                Some(k) => { assert!(raw[i].matches_key(k), "C25: outputs() differs") }
                None => panic!("C25: outputs() lost an output edge"),
            }
        } else {
            match inputs.next() {
                Some(k) => { assert!(raw[i].matches_key(k), "C25: inputs() differs") }
                None => panic!("C25: inputs() lost an input edge"),
            }
        }
        i += 1;
    }
    assert!(inputs.next().is_none(), "C25: inputs() yields an extra key");
    assert!(outputs.next().is_none(), "C25: outputs() yields an extra key");
}

/// Aspect D: extra data is what was put in.
fn check_extra(origin: &OriginAndExtra, extra: Option<(IterationStamp, bool)>) {
    match (extra, origin.extra()) {
        (Some((stamp, conv)), Some(inner)) => {
            assert!(inner.iteration.load() == stamp, "C25: extra iteration stamp lost");
            assert!(inner.cycle_converged == conv, "C25: extra cycle_converged lost");
            assert!(inner.cycle_heads.is_empty());
            assert!(inner.tracked_struct_ids.is_empty());
        }
        (None, None) => {}
        _ => panic!("C25: presence of extra data changed"),
    }
}

// ---------------------------------------------------------------------------------------------
// C25-O1: leaf kernels, all values
// ---------------------------------------------------------------------------------------------

#[kani::proof]
fn c25_o1_edge_key_kind() {
    let r = RawEdge::any();
    let e = r.edge();
    assert!(r.matches(e));
    assert!(e.key() == r.key());
    // kind is carried by the tag bit only and never leaks into the key
    assert!(e.key().ingredient_index().as_u32() <= 0x7FFF_FFFF);
    // equality of edges distinguishes every component
    let r2 = RawEdge::any();
    let same = r.ingredient == r2.ingredient
        && r.index == r2.index
        && r.generation == r2.generation
        && r.output == r2.output;
    assert!((e == r2.edge()) == same);
    kani::cover!(r.output && r.ingredient == 0x7FFF_FFFF);
    kani::cover!(!r.output && r.generation == u32::MAX);
}

#[kani::proof]
fn c25_o1_packed_leaf() {
    let r = RawEdge::any();
    let e = r.edge();
    match PackedQueryEdge::new(e) {
        Some(p) => {
            assert!(r.packable(), "C25: an edge outside the compact limits was packed");
            assert!(r.matches(p.edge()), "C25: packed edge decodes to a different edge");
        }
        None => { assert!(!r.packable(), "C25: a packable edge was refused") }
    }
    kani::cover!(r.packable() && r.ingredient == 0xFFF && r.generation == 0xF_FFFF);
    kani::cover!(!r.output && r.ingredient == 0x1000);
    kani::cover!(!r.output && r.generation == 0x10_0000);
}

#[kani::proof]
fn c25_o1_tags() {
    let untracked: bool = kani::any();
    let wide: bool = kani::any();
    let with_extra: bool = kani::any();
    let kind = if untracked { DerivedOriginKind::DerivedUntracked } else { DerivedOriginKind::Derived };
    let layout = if wide { QueryEdgeLayout::Wide } else { QueryEdgeLayout::Packed };
    let inner = QueryOriginTag::derived(kind, layout);
    let tag = if with_extra { OriginAndExtraTag::with_extra(inner) } else { OriginAndExtraTag::without_extra(inner) };
    assert!(matches!(tag.layout(), OriginAndExtraLayout::WithExtra) == with_extra);
    let back = tag.origin();
    assert!(matches!(back.layout(), QueryEdgeLayout::Wide) == wide);
    match back.kind() {
        QueryOriginKind::Derived => { assert!(!untracked) }
        QueryOriginKind::DerivedUntracked => { assert!(untracked) }
        QueryOriginKind::Assigned => panic!("C25: derived tag decoded as assigned"),
    }
    // assigned
    let a = QueryOriginTag::assigned();
    let tag = if with_extra { OriginAndExtraTag::with_extra(a) } else { OriginAndExtraTag::without_extra(a) };
    assert!(matches!(tag.layout(), OriginAndExtraLayout::WithExtra) == with_extra);
    assert!(matches!(tag.origin().kind(), QueryOriginKind::Assigned));
    kani::cover!(untracked && wide && with_extra);
}

// ---------------------------------------------------------------------------------------------
// C25-O2 / O3: stored origins, N symbolic edges, with and without extra data
// ---------------------------------------------------------------------------------------------

fn any_extra() -> Option<(IterationStamp, bool)> {
    if kani::any() { Some((any_stamp(), kani::any())) } else { None }
}

// experiments
#[kani::proof]
#[kani::unwind(5)]
fn x25_fwd2_d() {
    let raw = [RawEdge::any(), RawEdge::any()];
    let origin = build::<2>(raw, false, None);
    check_forward(&origin, &raw, false);
    drop(origin);
}

#[kani::proof]
#[kani::unwind(5)]
fn x25_fwd2_symkind() {
    let raw = [RawEdge::any(), RawEdge::any()];
    let u: bool = kani::any();
    let origin = build::<2>(raw, u, None);
    check_forward(&origin, &raw, u);
    drop(origin);
}

#[kani::proof]
#[kani::unwind(5)]
fn x25_fwd2_forget() {
    let raw = [RawEdge::any(), RawEdge::any()];
    let origin = build::<2>(raw, false, None);
    check_forward(&origin, &raw, false);
    std::mem::forget(origin);
}

#[kani::proof]
#[kani::unwind(5)]
fn x25_bwd2_d() {
    let raw = [RawEdge::any(), RawEdge::any()];
    let origin = build::<2>(raw, false, None);
    check_backward(&origin, &raw, false);
    std::mem::forget(origin);
}

#[kani::proof]
#[kani::unwind(5)]
fn x25_part2_d() {
    let raw = [RawEdge::any(), RawEdge::any()];
    let origin = build::<2>(raw, false, None);
    check_partition(&origin, &raw);
    std::mem::forget(origin);
}

#[kani::proof]
#[kani::unwind(5)]
fn x25_fwd2_extra() {
    let raw = [RawEdge::any(), RawEdge::any()];
    let ex = Some((any_stamp(), kani::any()));
    let origin = build::<2>(raw, false, ex);
    check_forward(&origin, &raw, false);
    check_extra(&origin, ex);
    std::mem::forget(origin);
}

#[kani::proof]
#[kani::unwind(5)]
fn x25_fwd1_d() {
    let raw = [RawEdge::any()];
    let origin = build::<1>(raw, false, None);
    check_forward(&origin, &raw, false);
    drop(origin);
}

#[kani::proof]
#[kani::unwind(3)]
fn c25_o3_assigned_keeps_key() {
    let k = any_key();
    let mut origin = OriginAndExtra::assigned(k);
    match origin.origin() {
        QueryOriginRef::Assigned(back) => { assert!(back == k, "C25: assigned key changed") }
        _ => panic!("C25: assigned origin decoded as derived"),
    }
    assert!(origin.extra().is_none());
    assert!(origin.origin().edges().iter().next().is_none());
    if kani::any() {
        let stamp = any_stamp();
        let inner = origin.get_or_insert_extra();
        inner.iteration = stamp.into();
        match origin.origin() {
            QueryOriginRef::Assigned(back) => { assert!(back == k, "C25: assigned key changed by extra") }
            _ => panic!("C25: assigned origin decoded as derived"),
        }
        match origin.extra() {
            Some(inner) => { assert!(inner.iteration.load() == stamp) }
            None => panic!("C25: extra lost"),
        }
        kani::cover!(k.key_index().generation() == u32::MAX);
    }
    drop(origin);
}
