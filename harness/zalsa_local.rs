// Kani harnesses for /repo/src/zalsa_local.rs (compiled as `crate::zalsa_local::verif`).
// One sub-module per topic so that a sub-file that no longer compiles against the tree can be
// dropped by the driver without taking the others down.

pub(crate) mod edges {
    use super::*;
    include!("zalsa_local/edges.rs");
}

pub(crate) mod token {
    use super::*;
    include!("zalsa_local/token.rs");
}

pub(crate) mod stack {
    use super::*;
    include!("zalsa_local/stack.rs");
}
