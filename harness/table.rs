// Kani harnesses for /repo/src/table.rs (compiled as `crate::table::verif`).
// Properties: C07-O1 / C24 (page/slot <-> id arithmetic), C23 (page allocation bounds).

use crate::verif_prelude::*;

// @verif prop=C07,C24,C23 obl=O1 tier=quick bounds="all values: page < MAX_PAGES, slot < PAGE_LEN (128), two (page, slot) pairs"
// @+ encodes="table::make_id, table::split_id, PageIndex::new, SlotIndex::new, Id::from_index, Id::index"
/// C07-O1/C24: (page, slot) <-> id is a bijection on the valid range, so distinct slots have distinct ids and an id
/// always reads back the slot it was allocated for; the produced index stays below Id::MAX_U32.
#[kani::proof]
fn c07_o1_make_split_id() {
    let p: usize = kani::any();
    let s: usize = kani::any();
    kani::assume(p < MAX_PAGES && s < PAGE_LEN);
    let id = make_id(PageIndex::new(p), SlotIndex::new(s));
    assert!(id.index() < Id::MAX_U32);
    assert!(id.generation() == 0);
    let (bp, bs) = split_id(id);
    assert!(bp.0 == p && bs.0 == s, "C24: an id does not read back the slot it was created for");
    // generations never influence the slot
    let (gp, gs) = split_id(id.with_generation(kani::any()));
    assert!(gp.0 == p && gs.0 == s, "C07: the generation leaks into the slot address");
    let p2: usize = kani::any();
    let s2: usize = kani::any();
    kani::assume(p2 < MAX_PAGES && s2 < PAGE_LEN);
    let id2 = make_id(PageIndex::new(p2), SlotIndex::new(s2));
    assert!((id == id2) == (p == p2 && s == s2), "C24: two different slots share an id");
    kani::cover!(p == MAX_PAGES - 1 && s == PAGE_LEN - 1);
    kani::cover!(p == 0 && s == 0);
}
