// Kani harnesses for /repo/src/table.rs (compiled as `crate::table::verif`).
// Properties: C07-O1 / C24 (page/slot <-> id arithmetic), C23 (page allocation bounds).

use crate::verif_prelude::*;

// @verif prop=C07,C24,C23 obl=O1 tier=quick bounds="all values: page < MAX_PAGES, slot < PAGE_LEN (128), two (page, slot) pairs"
// @+ encodes="table::make_id, table::split_id, PageIndex::new, SlotIndex::new, Id::from_index, Id::index"
/// C07-O1/C24: (page, slot) <-> id is a bijection on the valid range, so distinct slots have distinct ids and an id
/// always reads back the slot it was allocated for; the produced index stays below Id::MAX_U32.
#[kani::proof]
fn c07_o1_make_split_id() {
    let p: usize = kani::any();
    let s: usize = kani::any();
    kani::assume(p < MAX_PAGES && s < PAGE_LEN);
    let id = make_id(PageIndex::new(p), SlotIndex::new(s));
    assert!(id.index() < Id::MAX_U32);
    assert!(id.generation() == 0);
    let (bp, bs) = split_id(id);
    assert!(bp.0 == p && bs.0 == s, "C24: an id does not read back the slot it was created for");
    // generations never influence the slot
    let (gp, gs) = split_id(id.with_generation(kani::any()));
    assert!(gp.0 == p && gs.0 == s, "C07: the generation leaks into the slot address");
    let p2: usize = kani::any();
    let s2: usize = kani::any();
    kani::assume(p2 < MAX_PAGES && s2 < PAGE_LEN);
    let id2 = make_id(PageIndex::new(p2), SlotIndex::new(s2));
    assert!((id == id2) == (p == p2 && s == s2), "C24: two different slots share an id");
    kani::cover!(p == MAX_PAGES - 1 && s == PAGE_LEN - 1);
    kani::cover!(p == 0 && s == 0);
}

/// A minimal slot type for page-level harnesses.
pub(crate) struct VSlot {
    x: u64,
    memos: MemoTable,
}

// SAFETY: private harness type, unique to these harnesses.
unsafe impl Slot for VSlot {
    unsafe fn memos(slot: *const Self, _: Revision) -> *const MemoTable {
        // SAFETY: caller passes a valid pointer.
        unsafe { &raw const (*slot).memos }
    }
    fn memos_mut(&mut self) -> &mut MemoTable {
        &mut self.memos
    }
}

// @verif prop=C23,C24 obl=O1 tier=quick bounds="one page of 128 slots whose fill level is symbolic in 0..=128 (set directly; earlier slots are not read); one allocation; then one read at a symbolic slot index"
// @+ encodes="PageView::allocate, Page::new, Table::push_page, Table::page, Table::get_raw, Table::get, Page::assert_type, PageView::data, PageView::page_data, make_id, split_id"
/// C23-O1: allocating into a page writes exactly the next free slot and never past the end (a full page is refused);
/// the returned id addresses that slot; reads through the table stay inside the initialized prefix (CBMC pointer and
/// bounds checks) and see the value that was written.
#[kani::proof]
#[kani::unwind(4)]
#[kani::stub(real_catch_unwind, stub_catch_unwind)]
fn c23_o1_page_allocate_bounds() {
    let table = Table::default();
    let types = Arc::new(MemoTableTypes::default());
    let page = table.push_page::<VSlot>(IngredientIndex::new(0), types.clone());
    let fill: usize = kani::any();
    kani::assume(fill <= PAGE_LEN);
    table.pages[page.0].allocated.store(fill, Ordering::Release);
    let x: u64 = kani::any();
    // SAFETY: single-threaded; we are the unique writer of the page.
    let res = unsafe { table.page::<VSlot>(page).allocate(page, |_| VSlot { x, memos: MemoTable::new(&types) }) };
    match res {
        Ok((id, r)) => {
            assert!(fill < PAGE_LEN, "C23: allocation into a full page (write past the end of the page)");
            let (p, s) = split_id(id);
            assert!(p.0 == page.0 && s.0 == fill, "C24: the new value did not get the next free slot");
            assert!(r.x == x);
            assert!(table.pages[page.0].allocated.load(Ordering::Acquire) == fill + 1);
            let back: &VSlot = table.get(id);
            assert!(back.x == x, "C24: the id does not read back the value it was created with");
            assert!(std::ptr::eq(table.get_raw::<VSlot>(id), back as *const VSlot as *mut VSlot));
        }
        Err(_) => {
            assert!(fill == PAGE_LEN, "C23: a page with free slots refused an allocation");
            assert!(table.pages[page.0].allocated.load(Ordering::Acquire) == PAGE_LEN);
        }
    }
    kani::cover!(fill == PAGE_LEN);
    kani::cover!(fill == PAGE_LEN - 1);
    kani::cover!(fill == 0);
    std::mem::forget(table);
}

// @verif prop=C23 obl=O1 tier=quick bounds="one page with symbolic fill level < 128; read of a slot index >= fill level (symbolic)" covers=0/1
// @+ encodes="Table::get_raw, PageView::page_data, split_id"
/// C23-O1: reading a slot that was never allocated panics (bounds check) instead of exposing uninitialized memory.
#[kani::proof]
#[kani::unwind(4)]
#[kani::should_panic]
#[kani::stub(real_catch_unwind, stub_catch_unwind)]
#[kani::stub(alloc::fmt::format, stub_format)]
fn c23_o1_unallocated_slot_read_panics() {
    let table = Table::default();
    let types = Arc::new(MemoTableTypes::default());
    let page = table.push_page::<VSlot>(IngredientIndex::new(0), types.clone());
    let fill: usize = kani::any();
    let s: usize = kani::any();
    kani::assume(fill < PAGE_LEN && fill <= s && s < PAGE_LEN);
    table.pages[page.0].allocated.store(fill, Ordering::Release);
    let id = make_id(page, SlotIndex::new(s));
    let _ = table.get_raw::<VSlot>(id);
    kani::cover!(true, "MUST-BE-UNREACHABLE: an unallocated slot was handed out");
    std::mem::forget(table);
}
