// Kani harnesses for /repo/src/function/fetch.rs (compiled as `crate::function::fetch::verif`).
// Properties: C01/C02 (the fast path returns a memoized value only if it is still valid),
// C03 (and does return it when nothing changed), C05 (an evicted value is never returned).

use crate::verif_prelude::*;
use crate::function::verif::*;
use crate::function::memo::Memo;
use crate::input::verif::alloc_vin_with_types;
use crate::table::memo::{MemoEntryType, MemoTableTypes};
use crate::zalsa::verif::any_zalsa;
use crate::{Durability, Revision};
use std::ptr::NonNull;

// @verif prop=C01,C02,C03,C05,C23 obl=O7 tier=thorough bounds="one memo of VFn attached to a page-backed struct; symbolic runtime INV state (< 2^40), memo verified_at <= now, durability, value present or evicted, final or provisional, origin Derived/DerivedUntracked/Assigned (no edges)"
// @+ encodes="function::IngredientImpl::<VFn>::fetch_hot, IngredientImpl::get_memo_from_table_for, Zalsa::memo_table_for, Table::memos, MemoTableWithTypes::get, MemoHeader::shallow_verify_memo, MemoHeader::may_be_provisional, MemoHeader::update_shallow, IngredientImpl::extend_memo_lifetime"
/// C01/C02 (soundness): the fetch fast path hands out the memoized value only if it is present, final and still
/// shallow-valid (verified in this revision, or nothing of its durability changed since it was verified), and then stamps
/// it verified-now; C05: an evicted value is never handed out; C03 (completeness): under those conditions it *is* handed out.
#[kani::proof]
#[kani::unwind(5)]
#[kani::stub(real_catch_unwind, stub_catch_unwind)]
#[kani::stub(crate::sync::max_parallelism, crate::interned::verif::stub_max_parallelism)]
fn c01_o7_fetch_hot_path() {
    let (zalsa, revs) = any_zalsa();
    let now = revs[0];
    let idx = MemoIngredientIndex::from_usize(0);
    let mut types = MemoTableTypes::default();
    types.set(idx, MemoEntryType::of::<Memo<VFn>>());
    let id = alloc_vin_with_types(&zalsa, [Revision::start(); 2], [Durability::LOW; 2], crate::sync::Arc::new(types));
    let v: usize = kani::any();
    kani::assume(1 <= v && v <= now);
    let d = any_durability();
    let has_value: bool = kani::any();
    let is_final: bool = kani::any();
    let val: u32 = kani::any();
    let memo = Memo::<VFn> {
        header: header_of(v, revisions_of(1, d, origin_of(any_origin_shape()), is_final)),
        value: if has_value { Some(val) } else { None },
    };
    let ptr = NonNull::from(Box::leak(Box::new(memo)));
    let ing = IngredientImpl::<VFn>::new(crate::zalsa::IngredientIndex::new(3), VMemoMap, 0);
    assert!(ing.insert_memo_into_table_for(&zalsa, id, ptr, idx).is_none());
    let got = ing.fetch_hot(&zalsa, id, idx);
    let last_changed = match dur_index(d) {
        0 => revs[0],
        1 => revs[1],
        2 => revs[2],
        _ => 1,
    };
    let valid = v == now || last_changed <= v;
    match got {
        Some(m) => {
            assert!(std::ptr::eq(m, ptr.as_ptr()), "C23: fast path returned a different memo");
            assert!(has_value, "C05: an evicted value was handed out");
            assert!(is_final, "C01: a provisional memo was handed out by the fast path");
            assert!(valid, "C01/C02: the fast path returned a memo although an input of its durability changed after it was verified");
            assert!(m.value == Some(val));
            assert!(m.header.verified_at.load().as_usize() == now, "C03: returned memo not stamped verified-now");
        }
        None => {
            assert!(!(has_value && is_final && valid), "C03: the fast path refused a memo that is present, final and unaffected by any write");
            // SAFETY: the memo is live.
            assert!(unsafe { ptr.as_ref() }.header.verified_at.load().as_usize() == v, "C01: verified_at changed although the memo was not accepted");
        }
    }
    kani::cover!(has_value && is_final && valid && v < now);
    kani::cover!(has_value && is_final && !valid);
    kani::cover!(!has_value && valid);
    std::mem::forget(ing);
    std::mem::forget(zalsa);
}
