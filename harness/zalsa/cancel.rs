// cancellation-check harnesses (sub-file of the zalsa hook)
use crate::verif_prelude::*;
use super::{minimal_zalsa, any_zalsa};

// @verif prop=C20 obl=O4 tier=quick bounds="revision-cancelled flag set; token state arbitrary (2 bits)" covers=0/1
// @+ encodes="Zalsa::unwind_if_revision_cancelled, ZalsaLocal::should_trigger_local_cancellation, ZalsaLocal::unwind_pending_write, ZalsaLocal::unwind_cancelled, Runtime::load_cancellation_flag"
/// C20-O4: with the revision-cancelled flag set, the cancellation check never returns.
#[kani::proof]
#[kani::unwind(4)]
#[kani::should_panic]
#[kani::stub(real_catch_unwind, stub_catch_unwind)]
#[kani::stub(real_resume_unwind, stub_resume_unwind)]
fn c20_o4_pending_write_unwinds() {
    let z = minimal_zalsa();
    let local = ZalsaLocal::new();
    if kani::any() {
        local.cancellation_token().cancel();
    }
    let _ = local.set_cancellation_disabled(kani::any());
    z.runtime().set_cancellation_flag();
    z.unwind_if_revision_cancelled(&local);
    kani::cover!(true, "MUST-BE-UNREACHABLE: cancellation check returned although a write is pending");
    std::mem::forget(local);
    std::mem::forget(z);
}

// @verif prop=C20,C21 obl=O4 tier=quick bounds="flag clear; token state arbitrary with (cancelled => disabled)"
// @+ encodes="Zalsa::unwind_if_revision_cancelled, ZalsaLocal::should_trigger_local_cancellation, Runtime::load_cancellation_flag"
/// C20-O4/C21: with no pending write and no effective local cancellation, the check returns.
#[kani::proof]
#[kani::unwind(4)]
#[kani::stub(real_catch_unwind, stub_catch_unwind)]
fn c20_o4_no_cancellation_returns() {
    let z = minimal_zalsa();
    let local = ZalsaLocal::new();
    let cancelled: bool = kani::any();
    let disabled: bool = kani::any();
    kani::assume(!cancelled || disabled);
    if cancelled {
        local.cancellation_token().cancel();
    }
    let _ = local.set_cancellation_disabled(disabled);
    z.unwind_if_revision_cancelled(&local);
    kani::cover!(cancelled && disabled);
    kani::cover!(!cancelled && !disabled);
    std::mem::forget(local);
    std::mem::forget(z);
}

// @verif prop=C21 obl=O2 tier=quick bounds="token cancelled and not disabled; write flag arbitrary" covers=0/1
// @+ encodes="Zalsa::unwind_if_revision_cancelled, ZalsaLocal::should_trigger_local_cancellation, ZalsaLocal::unwind_cancelled"
/// C21: a cancelled, not-disabled token makes the next cancellation check unwind.
#[kani::proof]
#[kani::unwind(4)]
#[kani::should_panic]
#[kani::stub(real_catch_unwind, stub_catch_unwind)]
#[kani::stub(real_resume_unwind, stub_resume_unwind)]
fn c21_o2_local_cancel_unwinds() {
    let z = minimal_zalsa();
    let local = ZalsaLocal::new();
    local.cancellation_token().cancel();
    if kani::any() {
        z.runtime().set_cancellation_flag();
    }
    z.unwind_if_revision_cancelled(&local);
    kani::cover!(true, "MUST-BE-UNREACHABLE: cancellation check returned although the token is cancelled");
    std::mem::forget(local);
    std::mem::forget(z);
}

