// Kani harnesses for /repo/src/cycle.rs (compiled as `crate::cycle::verif`).
// Properties: C15-O1 (iteration bound), C20-O1 (stamp order).

use crate::verif_prelude::*;

/// Constructor for other harness modules: the stamp (iteration, cancellation count).
pub(crate) fn stamp(iteration: u8, cancellation_count: u8) -> IterationStamp {
    IterationStamp::new(iteration, cancellation_count)
}

/// Any stamp that satisfies the representation invariant `iteration <= MAX_ITERATIONS`.
pub(crate) fn any_stamp() -> IterationStamp {
    let it: u8 = kani::any();
    let c: u8 = kani::any();
    kani::assume(it <= 200);
    stamp(it, c)
}

// @verif prop=C15 obl=O1 tier=quick bounds="all values: every stamp with iteration <= 200 and any cancellation epoch (201 x 256 stamps)"
// @+ encodes="IterationStamp::new, IterationStamp::increment_iteration, IterationStamp::iteration, IterationStamp::cancellation_count, IterationStamp::iteration_as_u32, IterationStamp::is_initial_iteration, IterationStamp::cmp"
/// C15-O1: over all 2^16 stamps satisfying the invariant `iteration <= 200`:
/// `increment_iteration` yields the next iteration in the same cancellation epoch, strictly
/// greater, still within the invariant, exactly while `iteration < 200`; otherwise `None`.
/// The u16 addition cannot overflow under the invariant (checked by Kani's overflow checks).
#[kani::proof]
fn c15_o1_increment_bounded() {
    let it: u8 = kani::any();
    let c: u8 = kani::any();
    kani::assume(it <= 200);
    let s = stamp(it, c);
    assert!(s.iteration() == it && s.cancellation_count() == c);
    assert!(s.iteration_as_u32() == it as u32);
    assert!(s.is_initial_iteration() == (it == 0));
    match s.increment_iteration() {
        Some(n) => {
            assert!(it < 200, "C15: iteration counter passed the documented bound of 200");
            assert!(n.iteration() == it + 1, "C15: increment does not advance by exactly one");
            assert!(n.iteration() <= 200);
            assert!(n.cancellation_count() == c, "C15: increment touched the cancellation byte");
            assert!(n > s, "C15: incremented stamp does not compare greater");
        }
        None => {} // (refusing earlier than 200 also satisfies "at most 200 iterations")
    }
    kani::cover!(it == 200 && c == 255);
    kani::cover!(it == 199 && c == 255);
    kani::cover!(it == 0 && c == 0);
}

// @verif prop=C15 obl=O1 tier=quick bounds="all values: every cancellation epoch"
// @+ encodes="IterationStamp::initial, IterationStamp::default, IterationStamp::is_default, IterationStamp::is_initial_iteration"
/// C15-O1: the invariant is established by `initial` (iteration 0, given epoch) and by the
/// default stamp.
#[kani::proof]
fn c15_o1_initial_establishes_invariant() {
    let c: u8 = kani::any();
    let s = IterationStamp::initial(c);
    assert!(s.iteration() == 0 && s.cancellation_count() == c);
    assert!(s.is_initial_iteration());
    assert!(s.is_default() == (c == 0));
    let d = IterationStamp::default();
    assert!(d.iteration() == 0 && d.cancellation_count() == 0 && d.is_default());
    kani::cover!(c == 255);
}

// @verif prop=C15 obl=O1 tier=quick bounds="all values: every cancellation epoch; the real increment is executed until it refuses (unwind 203)"
// @+ encodes="IterationStamp::initial, IterationStamp::increment_iteration"
/// C15-O1 (bounded history): starting from `initial(c)`, `k` successful increments give
/// iteration `k`; the 201st increment is refused. The loop runs the real function 201 times.
#[kani::proof]
#[kani::unwind(203)]
fn c15_o1_at_most_200_increments() {
    let c: u8 = kani::any();
    let mut s = IterationStamp::initial(c);
    let mut n: u32 = 0;
    while let Some(next) = s.increment_iteration() {
        s = next;
        n += 1;
        assert!(n <= 200, "C15: more than 200 iterations were admitted");
    }
    assert!(n <= 200 && s.iteration() as u32 == n && s.cancellation_count() == c);
}

// @verif prop=C20 obl=O1 tier=quick bounds="all values: all 2^32 pairs of stamps"
// @+ encodes="IterationStamp::new, IterationStamp::cmp, IterationStamp::eq, IterationStamp::initial"
/// C20-O1: stamps are ordered by cancellation epoch first, then by iteration; a stamp created
/// after a cancellation (greater epoch) compares greater than every stamp created before it.
#[kani::proof]
fn c20_o1_stamp_order() {
    let (i1, c1, i2, c2): (u8, u8, u8, u8) = (kani::any(), kani::any(), kani::any(), kani::any());
    let a = stamp(i1, c1);
    let b = stamp(i2, c2);
    let expect_lt = c1 < c2 || (c1 == c2 && i1 < i2);
    assert!((a < b) == expect_lt, "C20: stamp order is not (epoch, iteration) lexicographic");
    assert!((a == b) == (c1 == c2 && i1 == i2));
    if c1 < c2 {
        assert!(IterationStamp::initial(c2) > a, "C20: a post-cancellation stamp does not compare greater");
    }
    kani::cover!(c1 < c2 && i1 > i2);
    kani::cover!(c1 == c2 && i1 < i2);
}

// @verif prop=C20 obl=O1 tier=quick bounds="all values: every stamp with iteration <= 200; same-epoch updates"
// @+ encodes="AtomicIterationStamp::from, AtomicIterationStamp::load, AtomicIterationStamp::load_mut, AtomicIterationStamp::store_iteration, AtomicIterationStamp::set_iteration"
/// C20-O1: `AtomicIterationStamp` stores and loads stamps exactly.
#[kani::proof]
fn c20_o1_atomic_stamp_roundtrip() {
    let s = any_stamp();
    let a: AtomicIterationStamp = s.into();
    assert!(a.load() == s);
    let mut a = a;
    assert!(a.load_mut() == s);
    // same-epoch update
    let it2: u8 = kani::any();
    kani::assume(it2 <= 200);
    let s2 = stamp(it2, s.cancellation_count());
    a.store_iteration(s2);
    assert!(a.load() == s2);
    a.set_iteration(s);
    assert!(a.load() == s);
    kani::cover!(s != s2);
}
