// Kani harness support for /repo/src/zalsa.rs (compiled as `crate::zalsa::verif`).
// Constructs an ingredient-free `Zalsa` directly (struct literal): the revision/durability
// kernels need only the runtime. Going through `Storage::new` costs > 10 min of CBMC time.

use crate::verif_prelude::*;
use crate::storage::{HasStorage, Storage};

/// A database type; needed only as the type parameter of `Views::new`.
pub(crate) struct VDb {
    storage: Storage<VDb>,
}

// SAFETY: both accessors return the one storage field owned by `self`.
unsafe impl HasStorage for VDb {
    fn storage(&self) -> &Storage<Self> {
        &self.storage
    }
    fn storage_mut(&mut self) -> &mut Storage<Self> {
        &mut self.storage
    }
}

impl crate::Database for VDb {}

impl VDb {
    pub(crate) fn verif_new(storage: Storage<VDb>) -> Self {
        VDb { storage }
    }
}

/// A `Zalsa` with no ingredients and no event callback.
pub(crate) fn minimal_zalsa() -> Zalsa {
    Zalsa {
        views_of: Views::new::<VDb>(),
        #[cfg(not(feature = "inventory"))]
        nonce: NONCE.nonce(),
        memo_ingredient_indices: Vec::new(),
        jar_map: HashMap::default(),
        ingredient_to_id_struct_type_id_map: Default::default(),
        ingredients_vec: Vec::new(),
        ingredients_requiring_reset: Vec::new(),
        runtime: Runtime::default(),
        event_callback: None,
    }
}

/// Re-assign the structural fields of an ingredient-free `Zalsa` (see `storage::verif::storage_around`).
pub(crate) fn restate_empty(z: &mut Zalsa) {
    std::mem::forget(std::mem::replace(&mut z.ingredients_requiring_reset, Vec::new()));
    std::mem::forget(std::mem::replace(&mut z.ingredients_vec, Vec::new()));
    std::mem::forget(std::mem::replace(&mut z.event_callback, None));
}

/// A minimal `Zalsa` whose runtime is in an arbitrary state satisfying the revision invariant.
pub(crate) fn any_zalsa() -> (Zalsa, [usize; 3]) {
    let mut z = minimal_zalsa();
    let (rt, revs) = crate::runtime::verif::any_runtime();
    // replace without running the old runtime's drop glue (boxcar bucket loop)
    std::mem::forget(std::mem::replace(&mut z.runtime, rt));
    (z, revs)
}

/// A `Zalsa` (arbitrary INV runtime state) holding the given ingredients at indices 0, 1, ...
pub(crate) fn zalsa_with(ingredients: Vec<Box<dyn Ingredient>>) -> (Zalsa, [usize; 3]) {
    let (mut z, revs) = any_zalsa();
    std::mem::forget(std::mem::replace(&mut z.ingredients_vec, ingredients));
    (z, revs)
}

pub(crate) mod cancel {
    use super::*;
    include!("zalsa/cancel.rs");
}
