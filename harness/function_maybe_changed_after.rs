// Kani harnesses for /repo/src/function/maybe_changed_after.rs
// (compiled as `crate::function::maybe_changed_after::verif`).
// Properties: C01-O2, C03-O1 (shallow / hot verification), C02-O3 (durability shortcut over
// write histories), C04-O2/O3 (untracked memos), C20-O3 (cancellation epoch).

use crate::verif_prelude::*;
use crate::function::verif::*;
use crate::zalsa::verif::{any_zalsa, minimal_zalsa};
use crate::Durability;

fn last_changed_ref(d: Durability, revs: [usize; 3]) -> usize {
    match dur_index(d) {
        0 => revs[0],
        1 => revs[1],
        2 => revs[2],
        _ => 1,
    }
}

// @verif prop=C01,C02,C03 obl=O2 tier=quick bounds="every runtime state with rev[LOW] >= rev[MEDIUM] >= rev[HIGH] >= R1 (< 2^40); every verified_at <= now; every durability; changed_at <= verified_at; query revision <= now; origin Derived/DerivedUntracked/Assigned without edges; final and provisional flag"
// @+ encodes="MemoHeader::shallow_verify_memo, MemoHeader::shallow_verify_memo_cold, MemoHeader::maybe_changed_after_hot, MemoHeader::update_shallow, MemoHeader::mark_as_verified, MemoHeader::mark_outputs_as_verified, MemoHeader::may_be_provisional, Zalsa::current_revision, Zalsa::last_changed_revision, Runtime::last_changed_revision, VerifyResult::unchanged_for_memo"
/// C01-O2 (soundness): shallow verification says yes only if the memo was verified in this revision or
/// no input of its durability changed since it was verified; the hot path says Unchanged only for a
/// final, shallow-verified memo with changed_at <= the asked revision, and only moves verified_at to now.
#[kani::proof]
#[kani::unwind(4)]
#[kani::stub(real_catch_unwind, stub_catch_unwind)]
fn c01_o2_shallow_and_hot_sound() {
    let (zalsa, revs) = any_zalsa();
    let now = revs[0];
    let v: usize = kani::any();
    kani::assume(1 <= v && v <= now);
    let changed_at: usize = kani::any();
    kani::assume(1 <= changed_at && changed_at <= v);
    let d = any_durability();
    let shape = any_origin_shape();
    let is_final: bool = kani::any();
    let header = header_of(v, revisions_of(changed_at, d, origin_of(shape), is_final));
    let k = key(3, 0, 0);

    let res = header.shallow_verify_memo(&zalsa, k);
    let lc = last_changed_ref(d, revs);
    if res.yes() {
        assert!(v == now || lc <= v, "C01/C02: shallow verification accepted a memo although an input of its durability changed after it was verified");
    }
    if res == ShallowUpdate::Verified {
        assert!(v == now, "C01: memo reported as verified in this revision although it was not");
    }

    let rev: usize = kani::any();
    kani::assume(1 <= rev && rev <= now);
    let hot = header.maybe_changed_after_hot(&zalsa, k, Revision::from(rev));
    match hot {
        Some(VerifyResult::Unchanged { .. }) => {
            assert!(changed_at <= rev, "C01/C02: hot path reported Unchanged although the value changed after the asked revision");
            assert!(is_final, "C01: hot path reused a provisional memo");
            assert!(res.yes(), "C01: hot path reused a memo that is not shallow-verifiable");
        }
        Some(VerifyResult::Changed) => {
            assert!(changed_at > rev, "C03: hot path reported Changed although changed_at <= revision");
            assert!(is_final && res.yes());
        }
        None => {}
    }
    // the only effect is verified_at := now, and only when the durability shortcut applied
    let v_after = header.verified_at.load().as_usize();
    if hot.is_some() && res == ShallowUpdate::HigherDurability {
        assert!(v_after == now, "C03: verified_at not advanced after the durability shortcut");
    } else {
        assert!(v_after == v, "C01: verified_at modified without a successful verification");
    }
    assert!(header.revisions.changed_at.as_usize() == changed_at);
    assert!(header.revisions.durability == d);
    // input-space witnesses (see c01_o4_backdate_sound)
    kani::cover!(v < now && lc <= v && is_final && changed_at <= rev);
    kani::cover!(v < now && lc > v);
    kani::cover!((v == now || lc <= v) && is_final && changed_at > rev);
    kani::cover!(!is_final);
    std::mem::forget(header);
    std::mem::forget(zalsa);
}

// @verif prop=C03 obl=O1 tier=quick bounds="same symbolic space as c01_o2_shallow_and_hot_sound"
// @+ encodes="MemoHeader::shallow_verify_memo, MemoHeader::shallow_verify_memo_cold, MemoHeader::maybe_changed_after_hot, MemoHeader::update_shallow"
/// C03-O1 (completeness): if no input of the memo's durability changed since it was verified, shallow
/// verification says yes; a final memo with changed_at <= revision is then reported Unchanged by the hot path.
#[kani::proof]
#[kani::unwind(4)]
#[kani::stub(real_catch_unwind, stub_catch_unwind)]
fn c03_o1_shallow_and_hot_complete() {
    let (zalsa, revs) = any_zalsa();
    let now = revs[0];
    let v: usize = kani::any();
    kani::assume(1 <= v && v <= now);
    let changed_at: usize = kani::any();
    kani::assume(1 <= changed_at && changed_at <= v);
    let d = any_durability();
    let shape = any_origin_shape();
    let header = header_of(v, revisions_of(changed_at, d, origin_of(shape), true));
    let k = key(3, 0, 0);
    let lc = last_changed_ref(d, revs);
    kani::assume(v == now || lc <= v);
    let res = header.shallow_verify_memo(&zalsa, k);
    assert!(res.yes(), "C03: memo not shallow-verified although nothing of its durability changed since it was verified");
    let rev: usize = kani::any();
    kani::assume(changed_at <= rev && rev <= now);
    match header.maybe_changed_after_hot(&zalsa, k, Revision::from(rev)) {
        Some(VerifyResult::Unchanged { .. }) => {}
        _ => panic!("C03: hot path did not report Unchanged for a verified final memo whose value did not change after the asked revision"),
    }
    assert!(header.verified_at.load().as_usize() == now, "C03: verified_at not advanced to now");
    kani::cover!(v < now && dur_index(d) == 2);
    kani::cover!(v < now && dur_index(d) == 3);
    std::mem::forget(header);
    std::mem::forget(zalsa);
}

/// Shared body of the write-history harnesses: a memo verified at `v` with durability `d`, then
/// `n` revisions each with one write of symbolic durability, then shallow verification.
fn history_then_shallow(n: usize, d: Durability, untracked: bool) -> (bool, bool) {
    let (mut zalsa, revs) = any_zalsa();
    let v: usize = kani::any();
    kani::assume(1 <= v && v <= revs[0]);
    let shape = if untracked { OriginShape::Untracked } else { OriginShape::Derived };
    let header = header_of(v, revisions_of(1, d, origin_of(shape), true));
    let initially_ok = v == revs[0] || last_changed_ref(d, revs) <= v;
    let ds: [u8; 3] = [kani::any(), kani::any(), kani::any()];
    kani::assume(ds[0] < 3 && ds[1] < 3 && ds[2] < 3);
    let writes: [bool; 3] = [kani::any(), kani::any(), kani::any()];
    let mut hit = false; // some write after `v` had durability >= d
    let mut i = 0;
    while i < n {
        zalsa.runtime_mut().new_revision();
        if writes[i] {
            // a synthetic write / input write of durability ds[i]
            zalsa.runtime_mut().report_tracked_write(dur(ds[i]));
            if ds[i] >= dur_index(d) {
                hit = true;
            }
        }
        i += 1;
    }
    let res = header.shallow_verify_memo(&zalsa, key(3, 0, 0));
    if hit {
        assert!(!res.yes(), "C02: the durability shortcut skipped a write to an input the memo could have read");
    }
    if n > 0 && dur_index(d) == 0 {
        // LOW durability (which every untracked read forces): any later revision invalidates
        assert!(!res.yes(), "C04/C02: a LOW-durability memo was shallow-verified in a later revision");
    }
    if !hit && initially_ok && dur_index(d) != 0 {
        assert!(res.yes(), "C03: memo not reused although no input of its durability was written");
    }
    if dur_index(d) == 3 {
        assert!(res.yes(), "C03: a NEVER_CHANGE memo failed shallow verification");
    }
    std::mem::forget(header);
    std::mem::forget(zalsa);
    (hit, res.yes())
}

// @verif prop=C02,C03,C04 obl=O3 tier=quick bounds="arbitrary INV start state; every verified_at <= now; memo durability symbolic; exactly 2 later revisions, each with an optional write of symbolic durability LOW/MEDIUM/HIGH"
// @+ encodes="Runtime::new_revision, Runtime::report_tracked_write, MemoHeader::shallow_verify_memo, MemoHeader::shallow_verify_memo_cold, Zalsa::last_changed_revision"
/// C02-O3: over every 2-revision write history, a write with durability >= the memo's durability after it
/// was verified always defeats the durability shortcut (and, conversely for C03, its absence never does).
#[kani::proof]
#[kani::unwind(5)]
#[kani::stub(real_catch_unwind, stub_catch_unwind)]
fn c02_o3_history_2() {
    let (hit, _yes) = history_then_shallow(2, any_durability(), false);
    kani::cover!(hit);
    kani::cover!(!hit);
}

// @verif prop=C02,C03,C04 obl=O3 tier=thorough bounds="as c02_o3_history_2 with exactly 3 later revisions"
// @+ encodes="Runtime::new_revision, Runtime::report_tracked_write, MemoHeader::shallow_verify_memo, MemoHeader::shallow_verify_memo_cold"
/// C02-O3: the same over every 3-revision write history.
#[kani::proof]
#[kani::unwind(6)]
#[kani::stub(real_catch_unwind, stub_catch_unwind)]
fn c02_o3_history_3() {
    let (hit, _yes) = history_then_shallow(3, any_durability(), false);
    kani::cover!(hit);
    kani::cover!(!hit);
}

// @verif prop=C02,C03,C04 obl=O3 tier=quick bounds="as c02_o3_history_2 with exactly 1 later revision"
// @+ encodes="Runtime::new_revision, Runtime::report_tracked_write, MemoHeader::shallow_verify_memo"
/// C02-O3: one later revision.
#[kani::proof]
#[kani::unwind(4)]
#[kani::stub(real_catch_unwind, stub_catch_unwind)]
fn c02_o3_history_1() {
    let (hit, _yes) = history_then_shallow(1, any_durability(), false);
    kani::cover!(hit);
    kani::cover!(!hit);
}

// @verif prop=C04,C02 obl=O2 tier=quick bounds="untracked memo (durability LOW, origin DerivedUntracked); 1 or 2 later revisions with optional writes of any durability; arbitrary INV start state"
// @+ encodes="Runtime::new_revision, Runtime::report_tracked_write, MemoHeader::shallow_verify_memo, MemoHeader::shallow_verify_memo_cold"
/// C04-O2: a memo that recorded an untracked read (LOW durability) is never shallow-verified in a later revision.
#[kani::proof]
#[kani::unwind(5)]
#[kani::stub(real_catch_unwind, stub_catch_unwind)]
fn c04_o2_untracked_never_shallow_verified_later() {
    let n: usize = kani::any();
    kani::assume(n == 1 || n == 2);
    let (hit, yes) = history_then_shallow(n, Durability::LOW, true);
    assert!(!yes);
    kani::cover!(hit);
    kani::cover!(!hit);
}

// @verif prop=C20 obl=O3 tier=quick bounds="all 2^16 pairs of (memo epoch, runtime epoch) with memo epoch != runtime epoch; provisional memo with one cycle head; iteration <= 200"
// @+ encodes="MemoHeader::validate_may_be_provisional, MemoHeader::may_be_provisional, MemoHeader::cycle_heads, QueryRevisions::iteration, Runtime::cancellation_count"
/// C20-O3: a provisional memo stamped with cancellation epoch c is rejected whenever the runtime's epoch
/// differs, before any other criterion (cycle-head status, same-iteration reuse) is consulted.
#[kani::proof]
#[kani::unwind(4)]
#[kani::stub(real_catch_unwind, stub_catch_unwind)]
fn c20_o3_epoch_mismatch_rejects_provisional() {
    let mut zalsa = minimal_zalsa();
    let local = ZalsaLocal::new();
    let memo_epoch: u8 = kani::any();
    let rt_epoch: u8 = kani::any();
    kani::assume(memo_epoch != rt_epoch);
    let it: u8 = kani::any();
    kani::assume(it <= 200);
    zalsa.runtime_mut().verif_set_cancellation_count(rt_epoch);
    let stamp = crate::cycle::verif::stamp(it, memo_epoch);
    let me = key(3, 0, 0);
    let revisions = QueryRevisions::fixpoint_initial(me, stamp);
    let header = header_of(1, revisions);
    assert!(header.may_be_provisional());
    let ok = header.validate_may_be_provisional(&zalsa, &local, me);
    assert!(!ok, "C20: a provisional memo from an abandoned (cancelled) execution was accepted");
    kani::cover!(memo_epoch < rt_epoch);
    kani::cover!(memo_epoch > rt_epoch);
    std::mem::forget(header);
    std::mem::forget(local);
    std::mem::forget(zalsa);
}

// @verif prop=C20,C01 obl=O3 tier=quick bounds="final memo (verified_final = true) or memo without cycle heads; any epochs"
// @+ encodes="MemoHeader::validate_may_be_provisional"
/// C20-O3 (vacuity guard for the above): final memos and memos without cycle heads are accepted regardless of epoch.
#[kani::proof]
#[kani::unwind(4)]
#[kani::stub(real_catch_unwind, stub_catch_unwind)]
fn c20_o3_final_memo_accepted() {
    let mut zalsa = minimal_zalsa();
    let local = ZalsaLocal::new();
    zalsa.runtime_mut().verif_set_cancellation_count(kani::any());
    let is_final: bool = kani::any();
    let header = header_of(1, revisions_of(1, Durability::LOW, origin_of(OriginShape::Derived), is_final));
    assert!(header.validate_may_be_provisional(&zalsa, &local, key(3, 0, 0)));
    kani::cover!(!is_final);
    std::mem::forget(header);
    std::mem::forget(local);
    std::mem::forget(zalsa);
}

// ---------------------------------------------------------------------------------------------
// C01-O5 / C03-O4 / C04-O3: full memo verification (shallow + deep) over real input-field ingredients
// ---------------------------------------------------------------------------------------------

use crate::function::sync::verif::GuardHome;
use crate::input::verif::{alloc_vin, vin_ingredients};
use crate::zalsa::verif::zalsa_with;
use crate::zalsa_local::{OriginAndExtra, QueryEdge};

/// A memo of query (3, 0) that read `n` fields of one page-backed input; everything symbolic:
/// runtime state, field revisions/durabilities, the memo's verified_at/durability.
/// Assumed (and justified elsewhere): (a) the memo's durability is <= the durability of every field it
/// read (C01-O1 / C02-O5: durability = min over reads); (b) a field written in revision r with durability d
/// has last_changed(d) >= r (C02-O2: the setter reports the field's durability to the runtime).
fn verify_memo_over_fields(n: usize) {
    let (zalsa, revs) = zalsa_with(vin_ingredients());
    let now = revs[0];
    let r: [usize; 2] = [kani::any(), kani::any()];
    let d: [Durability; 2] = [any_durability(), any_durability()];
    kani::assume(1 <= r[0] && r[0] <= now && 1 <= r[1] && r[1] <= now);
    let id = alloc_vin(&zalsa, [Revision::from(r[0]), Revision::from(r[1])], d);
    let v: usize = kani::any();
    kani::assume(1 <= v && v <= now);
    let md = any_durability();
    let mut i = 0;
    while i < n {
        kani::assume(dur_index(md) <= dur_index(d[i])); // (a)
        kani::assume(last_changed_ref(d[i], revs) >= r[i]); // (b)
        i += 1;
    }
    let edges = [
        QueryEdge::input(crate::DatabaseKeyIndex::new(crate::zalsa::IngredientIndex::new(1), id)),
        QueryEdge::input(crate::DatabaseKeyIndex::new(crate::zalsa::IngredientIndex::new(2), id)),
    ];
    let origin = if n == 1 {
        OriginAndExtra::derived([edges[0]].into_iter(), Default::default())
    } else {
        OriginAndExtra::derived(edges.into_iter(), Default::default())
    };
    let header = header_of(v, revisions_of(1, md, origin, true));
    let local = ZalsaLocal::new();
    let home = GuardHome::new(crate::zalsa::IngredientIndex::new(3));
    // SAFETY: index < Id::MAX_U32.
    let guard = home.guard(&zalsa, &local, unsafe { Id::from_index(0) });
    let ok = header.verify_memo(dangling_raw_db(), &guard, CycleRecoveryStrategy::Panic);
    let mut unchanged_since_v = true;
    let mut i = 0;
    while i < n {
        unchanged_since_v &= r[i] <= v;
        i += 1;
    }
    if ok {
        assert!(unchanged_since_v, "C01/C02: a memo was validated although an input field it read was written after it was last verified");
        assert!(header.verified_at.load().as_usize() == now, "C03: a validated memo was not marked verified in this revision");
    } else {
        assert!(!unchanged_since_v, "C03: a memo was invalidated although none of the fields it read was written since it was verified");
        assert!(header.verified_at.load().as_usize() == v, "C01: verified_at modified although verification failed");
    }
    kani::cover!(unchanged_since_v && v < now);
    kani::cover!(!unchanged_since_v);
    kani::cover!(unchanged_since_v && v < now && dur_index(md) == 0);
    std::mem::forget(guard);
    std::mem::forget(home);
    std::mem::forget(local);
    std::mem::forget(header);
    std::mem::forget(zalsa);
}

// @verif prop=C01,C03,C02 obl=O5 tier=thorough bounds="memo that read 1 field of one page-backed 2-field input; symbolic runtime INV state (< 2^40), field revisions <= now, field durabilities, memo verified_at <= now and durability; assumptions (a) memo durability <= field durability and (b) last_changed(d_field) >= field revision"
// @+ encodes="MemoHeader::verify_memo, MemoHeader::shallow_verify_memo, MemoHeader::validate_may_be_provisional, MemoHeader::update_shallow, MemoHeader::deep_verify_memo, deep_verify_edges, DatabaseKeyIndex::maybe_changed_after, Zalsa::lookup_ingredient, input_field::FieldIngredientImpl::<VIn>::maybe_changed_after (via dyn Ingredient), MemoHeader::mark_as_verified, QueryEdges::iter, ClaimGuard accessors"
/// C01-O5/C03-O4: complete verification (durability shortcut, then dependency walk through the real dyn-dispatched
/// field ingredients) of a memo that read one input field answers 'valid' iff that field was not written after the memo
/// was last verified; a validated memo is stamped verified-now, a rejected one is left alone.
#[kani::proof]
#[kani::unwind(5)]
#[kani::stub(real_catch_unwind, stub_catch_unwind)]
fn c01_o5_verify_memo_one_field() {
    verify_memo_over_fields(1);
}

// @verif prop=C01,C03,C02 obl=O5 tier=thorough bounds="as c01_o5_verify_memo_one_field with both fields read (two edges, in order)"
// @+ encodes="MemoHeader::verify_memo, MemoHeader::deep_verify_memo, deep_verify_edges, FieldIngredientImpl::<VIn>::maybe_changed_after"
/// C01-O5/C03-O4 for a memo that read two fields.
#[kani::proof]
#[kani::unwind(6)]
#[kani::stub(real_catch_unwind, stub_catch_unwind)]
fn c01_o5_verify_memo_two_fields() {
    verify_memo_over_fields(2);
}

// @verif prop=C01,C04,C03 obl=O5 tier=quick bounds="memo without edges; origin Derived / DerivedUntracked / Assigned; final or provisional; cycle-participant flag via strategy Panic/Fixpoint; memo not shallow-verifiable (durability LOW, verified before now)"
// @+ encodes="MemoHeader::deep_verify_memo, MemoHeader::verify_memo, MemoHeader::may_be_provisional, MemoHeader::was_cycle_participant, deep_verify_edges (zero edges), MemoHeader::mark_as_verified"
/// C01-O5/C04-O3: dependency-walk verification answers Changed for a memo that read untracked state, for a specified
/// (assigned) value and for a provisional memo; a final, fully tracked memo without dependencies is Unchanged and is
/// stamped verified-now.
#[kani::proof]
#[kani::unwind(5)]
#[kani::stub(real_catch_unwind, stub_catch_unwind)]
fn c01_o5_deep_verify_arms() {
    let (zalsa, revs) = any_zalsa();
    let now = revs[0];
    kani::assume(now > 1);
    let v: usize = kani::any();
    kani::assume(1 <= v && v < now);
    let shape = any_origin_shape();
    let is_final: bool = kani::any();
    let header = header_of(v, revisions_of(1, Durability::LOW, origin_of(shape), is_final));
    let local = ZalsaLocal::new();
    let home = GuardHome::new(crate::zalsa::IngredientIndex::new(3));
    // SAFETY: index < Id::MAX_U32.
    let guard = home.guard(&zalsa, &local, unsafe { Id::from_index(0) });
    let strategy = if kani::any() { CycleRecoveryStrategy::Panic } else { CycleRecoveryStrategy::Fixpoint };
    let res = header.deep_verify_memo(dangling_raw_db(), &guard, strategy);
    let expect_unchanged = shape == OriginShape::Derived && is_final;
    assert!(res.is_unchanged() == expect_unchanged, "C04/C01: deep verification arm returned the wrong verdict (untracked, assigned and provisional memos must be Changed)");
    if expect_unchanged {
        assert!(header.verified_at.load().as_usize() == now);
    } else {
        assert!(header.verified_at.load().as_usize() == v, "C01: a rejected memo was marked verified");
    }
    kani::cover!(shape == OriginShape::Untracked && is_final);
    kani::cover!(shape == OriginShape::Assigned);
    kani::cover!(expect_unchanged);
    std::mem::forget(guard);
    std::mem::forget(home);
    std::mem::forget(local);
    std::mem::forget(header);
    std::mem::forget(zalsa);
}

// ---------------------------------------------------------------------------------------------
// C20-O6: a provisional memo is promoted to final only by a cycle head finalized in the same revision
// ---------------------------------------------------------------------------------------------

// @verif prop=NONE obl=O6 tier=thorough bounds="PROBE (no verdict within 90 min): one provisional participant memo with one cycle head; the head is a real `function::IngredientImpl<VFn>` registered in the Zalsa whose memo sits in a page-backed memo table; symbolic: head final/provisional/poisoned, head verified_at, head iteration, participant verified_at < now, head verified_at <= now, recorded head iteration; cancellation epochs equal"
// @+ encodes="MemoHeader::validate_may_be_provisional, validate_provisional, Zalsa::lookup_ingredient, Ingredient::as_function (dyn), FunctionIngredientRef::provisional_status, IngredientImpl::<VFn>::provisional_status, MemoHeader::provisional_status, IngredientImpl::get_memo_from_table_for, CycleHeads iteration"
/// C20-O6: a provisional result (computed from cycle-head values of some revision and iteration) is accepted as final
/// only if its cycle head is final, was verified in the *same* revision as the provisional result, and finished in the
/// same iteration the result was computed from; in particular a result abandoned in an older revision is never promoted
/// by a head that was finalized later.
#[kani::proof]
#[kani::unwind(5)]
#[kani::stub(real_catch_unwind, stub_catch_unwind)]
#[kani::stub(crate::sync::max_parallelism, crate::interned::verif::stub_max_parallelism)]
fn c20_o6_provisional_needs_head_of_same_revision() {
    use crate::function::memo::Memo;
    use crate::input::verif::alloc_vin_with_types;
    use crate::table::memo::{MemoEntryType, MemoTableTypes};
    // the only registered ingredient is the head's function ingredient (index 0); the struct it is keyed by lives in a
    // page of the table, which needs no ingredient for the calls made here
    let head_fn_index = crate::zalsa::IngredientIndex::new(0);
    let ingredients: Vec<Box<dyn crate::ingredient::Ingredient>> = vec![Box::new(IngredientImpl::<VFn>::new(head_fn_index, VMemoMap, 0))];
    let (zalsa, revs) = zalsa_with(ingredients);
    let now = revs[0];
    let idx = MemoIngredientIndex::from_usize(0);
    let mut types = MemoTableTypes::default();
    types.set(idx, MemoEntryType::of::<Memo<VFn>>());
    let id = alloc_vin_with_types(&zalsa, [Revision::start(); 2], [Durability::LOW; 2], crate::sync::Arc::new(types));
    let head_key = crate::DatabaseKeyIndex::new(head_fn_index, id);

    // the cycle head's memo
    let head_final: bool = kani::any();
    let head_has_value = true;
    let head_v: usize = kani::any();
    kani::assume(1 <= head_v && head_v <= now);
    let head_it: u8 = kani::any();
    kani::assume(head_it <= 200);
    let head_stamp = crate::cycle::verif::stamp(head_it, 0);
    let mut head_rev = revisions_of(1, Durability::LOW, origin_of(OriginShape::Derived), head_final);
    head_rev.set_cycle_heads(CycleHeads::default(), head_stamp); // records the iteration in the extra data
    let head_memo = Memo::<VFn> { header: header_of(head_v, head_rev), value: if head_has_value { Some(1) } else { None } };
    let head_ptr = std::ptr::NonNull::from(Box::leak(Box::new(head_memo)));
    // SAFETY: the page's memo table types match `Memo<VFn>`.
    assert!(unsafe { zalsa.table().memos::<crate::input::Value<crate::input::verif::VIn>>(id, Revision::from(now)) }
        .insert(idx, head_ptr)
        .is_none());

    // the participant's provisional memo, computed from the head in iteration `seen_it`
    let part_v: usize = kani::any();
    // computed in an earlier revision than the current one (the same-revision reuse path goes through
    // the sync table and `thread::current()`, which Kani cannot execute)
    kani::assume(1 <= part_v && part_v < now);
    let seen_it: u8 = kani::any();
    kani::assume(seen_it <= 200);
    let seen_stamp = crate::cycle::verif::stamp(seen_it, 0);
    let me = key(9, 0, 0);
    let mut part_rev = revisions_of(1, Durability::LOW, origin_of(OriginShape::Derived), false);
    part_rev.set_cycle_heads(CycleHeads::initial(head_key, seen_stamp), seen_stamp);
    let part = header_of(part_v, part_rev);
    let local = ZalsaLocal::new();
    let ok = part.validate_may_be_provisional(&zalsa, &local, me);
    if ok {
        assert!(head_final && head_has_value || head_final, "C20/C01: a provisional result was accepted although its cycle head is not final");
        assert!(head_v == part_v, "C20: a provisional result was promoted by a cycle head finalized in a different revision");
        assert!(head_it == seen_it, "C01: a provisional result was promoted by a cycle head that finished in a different iteration");
        assert!(!part.may_be_provisional(), "C01: accepted provisional memo not marked final");
    } else {
        assert!(part.may_be_provisional());
    }
    kani::cover!(head_final && head_v == part_v && head_it == seen_it);
    kani::cover!(head_final && head_v > part_v && head_it == seen_it);
    kani::cover!(head_final && head_v == part_v && head_it != seen_it);
    std::mem::forget(part);
    std::mem::forget(local);
    std::mem::forget(zalsa);
}

// ---------------------------------------------------------------------------------------------
// C20-O7: promotion of a provisional result, with the cycle head's ingredient replaced by `MockHeadFn`
// (arbitrary provisional status). Decides what probe c20_o6 (real ingredient + memo table) could not.
// ---------------------------------------------------------------------------------------------

fn head_zalsa(kind: u8, head_it: u8, head_cc: u8, head_v: usize) -> (Zalsa, [usize; 3], crate::DatabaseKeyIndex) {
    use crate::function::verif::MockHeadFn;
    let head_fn_index = crate::zalsa::IngredientIndex::new(0);
    let mock = MockHeadFn {
        index: head_fn_index,
        kind,
        iteration: crate::cycle::verif::stamp(head_it, head_cc),
        verified_at: Revision::from(head_v),
        heads: CycleHeads::default(),
        types: crate::sync::Arc::new(crate::table::memo::MemoTableTypes::default()),
    };
    let ingredients: Vec<Box<dyn crate::ingredient::Ingredient>> = vec![Box::new(mock)];
    let (zalsa, revs) = zalsa_with(ingredients);
    (zalsa, revs, key(0, 3, 0))
}

// @verif prop=C20 obl=O7 tier=quick bounds="one provisional participant memo with ONE cycle head; the head's function ingredient is the environment stub MockHeadFn answering provisional_status with an arbitrary status: none/provisional/poisoned/final x iteration 0..=200 x cancellation byte x verified_at in 1..=now; participant: verified_at in 1..=now, recorded head iteration 0..=200, cancellation byte symbolic"
// @+ encodes="validate_provisional, Zalsa::lookup_ingredient, Ingredient::as_function (dyn dispatch to the stub), FunctionIngredientRef::provisional_status, CycleHeads::iter, AtomicIterationStamp::load, QueryRevisions::verified_final"
/// C20-O7: a provisional result is promoted to final only if its cycle head is final, was verified in the *same*
/// revision as the result, and finished in exactly the iteration (and cancellation epoch) the result was computed from.
/// In particular a result abandoned by a cancelled fixpoint in an older revision is never promoted by a head finalized later.
#[kani::proof]
#[kani::unwind(4)]
#[kani::stub(real_catch_unwind, stub_catch_unwind)]
fn c20_o7_promotion_needs_final_head_of_same_revision() {
    let kind: u8 = kani::any();
    kani::assume(kind <= 3);
    let head_it: u8 = kani::any();
    kani::assume(head_it <= 200);
    let head_cc: u8 = kani::any();
    let head_v: usize = kani::any();
    let part_v: usize = kani::any();
    // `validate_provisional` never reads the current revision: the two stamps are arbitrary valid revisions
    kani::assume(1 <= head_v && head_v <= REV_MAX);
    kani::assume(1 <= part_v && part_v <= REV_MAX);
    let (zalsa, _revs, head_key) = head_zalsa(kind, head_it, head_cc, head_v);
    let seen_it: u8 = kani::any();
    kani::assume(seen_it <= 200);
    let seen_cc: u8 = kani::any();
    let seen_stamp = crate::cycle::verif::stamp(seen_it, seen_cc);
    let me = key(9, 0, 0);
    let mut part_rev = revisions_of(1, Durability::LOW, origin_of(OriginShape::Derived), false);
    part_rev.set_cycle_heads(CycleHeads::initial(head_key, seen_stamp), seen_stamp);
    let part = header_of(part_v, part_rev);
    let ok = validate_provisional(&zalsa, me, &part.revisions, Revision::from(part_v), part.cycle_heads());
    if ok {
        assert!(kind == 3, "C20/C01: a provisional result was promoted although its cycle head is not final");
        assert!(head_v == part_v, "C20: a provisional result was promoted by a cycle head finalized in a different revision");
        assert!(head_it == seen_it && head_cc == seen_cc, "C20/C01: a provisional result was promoted by a cycle head that finished in a different iteration or cancellation epoch");
        assert!(!part.may_be_provisional(), "C01: promoted provisional memo not marked final");
    } else {
        assert!(part.may_be_provisional(), "C01: rejected provisional memo was marked final");
        // completeness (C03 direction): the exact match is promoted
        assert!(!(kind == 3 && head_v == part_v && head_it == seen_it && head_cc == seen_cc), "C03: matching final head did not promote the provisional result");
    }
    kani::cover!(ok);
    kani::cover!(kind == 3 && head_v > part_v && head_it == seen_it && head_cc == seen_cc);
    kani::cover!(kind == 3 && head_v < part_v && head_it == seen_it && head_cc == seen_cc);
    kani::cover!(kind == 3 && head_v == part_v && head_it != seen_it);
    kani::cover!(kind == 1);
    kani::cover!(kind == 2);
    kani::cover!(kind == 0);
    std::mem::forget(part);
    std::mem::forget(zalsa);
}
