// Kani harness support for /repo/src/function.rs (compiled as `crate::function::verif`).
// A hand-written function `Configuration` (`VFn`) standing in for macro output, and builders
// for memo headers. The macro-generated glue is outside every claim.

use crate::verif_prelude::*;
use crate::function::memo::MemoHeader;
use crate::revision::AtomicRevision;
use crate::zalsa_local::{OriginAndExtra, QueryOriginRef, QueryRevisions, QueryRevisionsExtra};
use crate::Durability;

/// The salsa struct a `VFn` is keyed by: backed by a page-backed `VIn` input value.
pub(crate) struct VStruct;

impl SalsaStructInDb for VStruct {
    type MemoIngredientMap = VMemoMap;
    const LEAF_TYPE_IDS: &'static [typeid::ConstTypeId] = &[];

    fn lookup_ingredient_index(_: &Zalsa) -> crate::plumbing::IngredientIndices {
        unimplemented!()
    }

    fn cast(_: Id, _: std::any::TypeId) -> Option<Self> {
        unimplemented!()
    }

    unsafe fn memo_table(zalsa: &Zalsa, id: Id, current_revision: Revision) -> crate::table::memo::MemoTableWithTypes<'_> {
        // a `VStruct` is stored as a page-backed `VIn` input value
        // SAFETY: the caller passes the current revision.
        unsafe { zalsa.table().memos::<crate::input::Value<crate::input::verif::VIn>>(id, current_revision) }
    }

    fn entries(_: &Zalsa) -> impl Iterator<Item = crate::DatabaseKeyIndex> + '_ {
        std::iter::empty()
    }
}

/// Every `VStruct` uses memo slot 0.
#[derive(Default)]
pub(crate) struct VMemoMap;

impl MemoIngredientMap for VMemoMap {
    fn get_zalsa_id(&self, _: &Zalsa, _: Id) -> MemoIngredientIndex {
        MemoIngredientIndex::from_usize(0)
    }
    fn get(&self, _: IngredientIndex) -> MemoIngredientIndex {
        MemoIngredientIndex::from_usize(0)
    }
}

/// A tracked function `VStruct -> u32`, compared with `==`, without cycle handling.
pub(crate) struct VFn;

// SAFETY: `u32` is `'static` and contains no database lifetime.
unsafe impl Configuration for VFn {
    const DEBUG_NAME: &'static str = "VFn";
    const LOCATION: crate::ingredient::Location = crate::ingredient::Location { file: "", line: 0 };
    const PERSIST: bool = false;
    const CYCLE_STRATEGY: CycleRecoveryStrategy = CycleRecoveryStrategy::Panic;

    type DbView = dyn crate::Database;
    type SalsaStruct<'db> = VStruct;
    type Input<'db> = ();
    type Output<'db> = u32;
    type Eviction = crate::function::eviction::NoopEviction;

    fn values_equal<'db>(old: &Self::Output<'db>, new: &Self::Output<'db>) -> bool {
        old == new
    }

    fn id_to_input(_: &Zalsa, _: Id) -> Self::Input<'_> {}

    fn execute<'db>(_: &'db Self::DbView, _: Self::Input<'db>) -> Self::Output<'db> {
        unimplemented!()
    }

    fn cycle_initial<'db>(_: &'db Self::DbView, _: Id, _: Self::Input<'db>) -> Self::Output<'db> {
        unimplemented!()
    }

    fn recover_from_cycle<'db>(
        _: &'db Self::DbView,
        _: &crate::Cycle,
        _: &Self::Output<'db>,
        value: Self::Output<'db>,
        _: Self::Input<'db>,
    ) -> Self::Output<'db> {
        value
    }

    fn serialize<S>(_: &Self::Output<'_>, _: S) -> Result<S::Ok, S::Error>
    where
        S: plumbing::serde::Serializer,
    {
        unimplemented!()
    }

    fn deserialize<'de, D>(_: D) -> Result<Self::Output<'static>, D::Error>
    where
        D: plumbing::serde::Deserializer<'de>,
    {
        unimplemented!()
    }
}

/// Which origin a memo header is given.
#[derive(Copy, Clone, PartialEq, Eq)]
pub(crate) enum OriginShape {
    /// `Derived` with no edges
    Derived,
    /// `DerivedUntracked` with no edges
    Untracked,
    /// `Assigned` by query (1, 0)
    Assigned,
}

pub(crate) fn any_origin_shape() -> OriginShape {
    let s: u8 = kani::any();
    kani::assume(s < 3);
    match s {
        0 => OriginShape::Derived,
        1 => OriginShape::Untracked,
        _ => OriginShape::Assigned,
    }
}

pub(crate) fn origin_of(shape: OriginShape) -> OriginAndExtra {
    match shape {
        OriginShape::Derived => OriginAndExtra::derived(std::iter::empty(), QueryRevisionsExtra::default()),
        OriginShape::Untracked => OriginAndExtra::derived_untracked(std::iter::empty(), QueryRevisionsExtra::default()),
        OriginShape::Assigned => OriginAndExtra::assigned(key(1, 0, 0)),
    }
}

pub(crate) fn revisions_of(changed_at: usize, durability: Durability, origin: OriginAndExtra, verified_final: bool) -> QueryRevisions {
    QueryRevisions {
        changed_at: Revision::from(changed_at),
        durability,
        origin_and_extra: origin,
        #[cfg(feature = "accumulator")]
        accumulated_inputs: Default::default(),
        verified_final: crate::sync::atomic::AtomicBool::new(verified_final),
    }
}

pub(crate) fn header_of(verified_at: usize, revisions: QueryRevisions) -> MemoHeader {
    MemoHeader {
        verified_at: AtomicRevision::from(Revision::from(verified_at)),
        revisions,
    }
}

// ---------------------------------------------------------------------------------------------
// C23-O4: a replaced memo stays alive until the next exclusive borrow
// ---------------------------------------------------------------------------------------------

// @verif prop=NONE obl=O4 tier=thorough cbmc_ub=violation bounds="PROBE (exceeds 40 GB): one memo of VFn attached to a page-backed struct, replaced once; the old memo symbolic: value present or evicted, final or provisional, origin Derived/DerivedUntracked/Assigned, symbolic stamps"
// @+ encodes="function::IngredientImpl::<VFn>::insert_memo, IngredientImpl::insert_memo_into_table_for, MemoTableWithTypes::insert, DeletedEntries::push, IngredientImpl::get_memo_from_table_for, IngredientImpl::reset_for_new_revision, DeletedEntries::clear, SharedBox::drop"
/// C23-O4: when a result is replaced while the database is only shared-borrowed, the old memo (to which `fetch` may have
/// handed out references, and which `execute` itself still reads for backdating and output diffing) is parked, not freed:
/// it stays readable and unchanged — whatever its state (also when its value was evicted). CBMC's pointer checks decide
/// the "still readable" part (a freed box fails the deallocated-object check).
#[kani::proof]
#[kani::unwind(5)]
#[kani::stub(real_catch_unwind, stub_catch_unwind)]
#[kani::stub(crate::sync::max_parallelism, crate::interned::verif::stub_max_parallelism)]
fn c23_o4_replaced_memo_stays_alive() {
    use crate::input::verif::alloc_vin_with_types;
    use crate::table::memo::{MemoEntryType, MemoTableTypes};
    let (zalsa, revs) = crate::zalsa::verif::any_zalsa();
    let now = revs[0];
    let idx = MemoIngredientIndex::from_usize(0);
    let mut types = MemoTableTypes::default();
    types.set(idx, MemoEntryType::of::<Memo<VFn>>());
    let id = alloc_vin_with_types(&zalsa, [Revision::start(); 2], [Durability::LOW; 2], Arc::new(types));
    let ing = IngredientImpl::<VFn>::new(IngredientIndex::new(3), VMemoMap, 0);
    let old_val: Option<u32> = if kani::any() { Some(kani::any()) } else { None };
    let old_final: bool = kani::any();
    let old_changed: usize = kani::any();
    kani::assume(1 <= old_changed && old_changed <= now);
    let shape = if kani::any() { OriginShape::Derived } else { OriginShape::Assigned };
    let old = memo::Memo::<VFn> {
        header: header_of(now, revisions_of(old_changed, any_durability(), origin_of(shape), old_final)),
        value: old_val,
    };
    let old_ref: &memo::Memo<VFn> = ing.insert_memo(&zalsa, id, old, idx);
    let old_ptr = old_ref as *const memo::Memo<VFn>;
    let new_val: u32 = kani::any();
    let new = memo::Memo::<VFn> {
        header: header_of(now, revisions_of(now, Durability::LOW, origin_of(OriginShape::Derived), true)),
        value: Some(new_val),
    };
    let new_ref = ing.insert_memo(&zalsa, id, new, idx);
    assert!(new_ref.value == Some(new_val));
    match ing.get_memo_from_table_for(&zalsa, id, idx) {
        Some(m) => { assert!(std::ptr::eq(m, new_ref), "C23: the memo table does not hold the newly inserted memo") }
        None => panic!("C23: inserted memo not found"),
    }
    // the replaced memo must still be readable and unchanged (a freed box would fail CBMC's
    // "deallocated dynamic object" check on these reads)
    // SAFETY: this is the property under test; the allocation must still be live.
    let old_again = unsafe { &*old_ptr };
    assert!(old_again.value == old_val, "C23: a replaced memo changed while references to it may exist");
    assert!(old_again.header.revisions.changed_at.as_usize() == old_changed);
    assert!(old_again.header.may_be_provisional() == !old_final);
    match (shape, old_again.header.origin()) {
        (OriginShape::Derived, QueryOriginRef::Derived(_)) => {}
        (OriginShape::Untracked, QueryOriginRef::DerivedUntracked(_)) => {}
        (OriginShape::Assigned, QueryOriginRef::Assigned(_)) => {}
        _ => panic!("C23: a replaced memo's origin was clobbered"),
    }
    kani::cover!(old_val.is_none() && old_final);
    kani::cover!(old_val.is_some() && !old_final);
    std::mem::forget(ing);
    std::mem::forget(zalsa);
}

// ---------------------------------------------------------------------------------------------
// A stand-in for the function ingredient of a cycle head (environment stub, part of every claim that uses it):
// it answers `provisional_status` with a status chosen by the harness (symbolic) and nothing else. The real
// `IngredientImpl::<C>::provisional_status` reads that status out of the head's memo through the page-backed memo
// table, which made the same obligation undecidable in 90 min (probe `c20_o6_*`).
// ---------------------------------------------------------------------------------------------

pub(crate) struct MockHeadFn {
    pub(crate) index: IngredientIndex,
    /// 0 = no memo, 1 = provisional, 2 = poisoned, 3 = final
    pub(crate) kind: u8,
    pub(crate) iteration: crate::cycle::IterationStamp,
    pub(crate) verified_at: Revision,
    pub(crate) heads: crate::cycle::CycleHeads,
    pub(crate) types: crate::sync::Arc<crate::table::memo::MemoTableTypes>,
}

impl std::fmt::Debug for MockHeadFn {
    fn fmt(&self, _: &mut std::fmt::Formatter<'_>) -> std::fmt::Result {
        Ok(())
    }
}

impl crate::ingredient::Ingredient for MockHeadFn {
    fn debug_name(&self) -> &'static str {
        "MockHeadFn"
    }
    fn location(&self) -> &'static crate::ingredient::Location {
        &VFn::LOCATION
    }
    fn jar_kind(&self) -> crate::zalsa::JarKind {
        crate::zalsa::JarKind::TrackedFn
    }
    unsafe fn maybe_changed_after(
        &self,
        _: &Zalsa,
        _: crate::database::RawDatabase<'_>,
        _: Id,
        _: Revision,
    ) -> crate::function::VerifyResult {
        unimplemented!()
    }
    fn collect_minimum_serialized_edges(
        &self,
        _: &Zalsa,
        _: crate::zalsa_local::QueryEdge,
        _: &mut crate::hash::FxIndexSet<crate::zalsa_local::QueryEdge>,
        _: &mut crate::hash::FxHashSet<crate::zalsa_local::QueryEdge>,
    ) {
        unimplemented!()
    }
    fn as_function(&self) -> Option<FunctionIngredientRef<'_>> {
        Some(FunctionIngredientRef::new(self))
    }
    fn ingredient_index(&self) -> IngredientIndex {
        self.index
    }
    fn memo_table_types(&self) -> &crate::sync::Arc<crate::table::memo::MemoTableTypes> {
        &self.types
    }
    fn memo_table_types_mut(&mut self) -> &mut crate::sync::Arc<crate::table::memo::MemoTableTypes> {
        &mut self.types
    }
    fn flatten_cycle_head_dependencies(
        &self,
        _: &Zalsa,
        _: Id,
        _: &mut crate::hash::FxIndexSet<crate::zalsa_local::QueryEdge>,
        _: &mut crate::hash::FxHashSet<crate::DatabaseKeyIndex>,
    ) {
        unimplemented!()
    }
}

impl FunctionIngredient for MockHeadFn {
    fn memo<'db>(&'db self, _: &'db Zalsa, _: Id) -> Option<crate::function::memo::ErasedMemo<'db>> {
        unimplemented!()
    }
    fn sync_table(&self) -> &crate::function::SyncTable {
        unimplemented!()
    }
    fn provisional_status<'db>(&'db self, _: &'db Zalsa, _: Id) -> Option<crate::cycle::ProvisionalStatus<'db>> {
        use crate::cycle::ProvisionalStatus;
        match self.kind {
            0 => None,
            1 => Some(ProvisionalStatus::Provisional {
                iteration: self.iteration,
                verified_at: self.verified_at,
                cycle_heads: &self.heads,
            }),
            2 => Some(ProvisionalStatus::Poisoned { iteration: self.iteration, verified_at: self.verified_at }),
            _ => Some(ProvisionalStatus::Final { iteration: self.iteration, verified_at: self.verified_at }),
        }
    }
}
