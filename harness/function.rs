// Kani harness support for /repo/src/function.rs (compiled as `crate::function::verif`).
// A hand-written function `Configuration` (`VFn`) standing in for macro output, and builders
// for memo headers. The macro-generated glue is outside every claim.

use crate::verif_prelude::*;
use crate::function::memo::MemoHeader;
use crate::revision::AtomicRevision;
use crate::zalsa_local::{OriginAndExtra, QueryRevisions, QueryRevisionsExtra};
use crate::Durability;

/// The salsa struct a `VFn` is keyed by: backed by a page-backed `VIn` input value.
pub(crate) struct VStruct;

impl SalsaStructInDb for VStruct {
    type MemoIngredientMap = VMemoMap;
    const LEAF_TYPE_IDS: &'static [typeid::ConstTypeId] = &[];

    fn lookup_ingredient_index(_: &Zalsa) -> crate::plumbing::IngredientIndices {
        unimplemented!()
    }

    fn cast(_: Id, _: std::any::TypeId) -> Option<Self> {
        unimplemented!()
    }

    unsafe fn memo_table(zalsa: &Zalsa, id: Id, current_revision: Revision) -> crate::table::memo::MemoTableWithTypes<'_> {
        // a `VStruct` is stored as a page-backed `VIn` input value
        // SAFETY: the caller passes the current revision.
        unsafe { zalsa.table().memos::<crate::input::Value<crate::input::verif::VIn>>(id, current_revision) }
    }

    fn entries(_: &Zalsa) -> impl Iterator<Item = crate::DatabaseKeyIndex> + '_ {
        std::iter::empty()
    }
}

/// Every `VStruct` uses memo slot 0.
#[derive(Default)]
pub(crate) struct VMemoMap;

impl MemoIngredientMap for VMemoMap {
    fn get_zalsa_id(&self, _: &Zalsa, _: Id) -> MemoIngredientIndex {
        MemoIngredientIndex::from_usize(0)
    }
    fn get(&self, _: IngredientIndex) -> MemoIngredientIndex {
        MemoIngredientIndex::from_usize(0)
    }
}

/// A tracked function `VStruct -> u32`, compared with `==`, without cycle handling.
pub(crate) struct VFn;

// SAFETY: `u32` is `'static` and contains no database lifetime.
unsafe impl Configuration for VFn {
    const DEBUG_NAME: &'static str = "VFn";
    const LOCATION: crate::ingredient::Location = crate::ingredient::Location { file: "", line: 0 };
    const PERSIST: bool = false;
    const CYCLE_STRATEGY: CycleRecoveryStrategy = CycleRecoveryStrategy::Panic;

    type DbView = dyn crate::Database;
    type SalsaStruct<'db> = VStruct;
    type Input<'db> = ();
    type Output<'db> = u32;
    type Eviction = crate::function::eviction::NoopEviction;

    fn values_equal<'db>(old: &Self::Output<'db>, new: &Self::Output<'db>) -> bool {
        old == new
    }

    fn id_to_input(_: &Zalsa, _: Id) -> Self::Input<'_> {}

    fn execute<'db>(_: &'db Self::DbView, _: Self::Input<'db>) -> Self::Output<'db> {
        unimplemented!()
    }

    fn cycle_initial<'db>(_: &'db Self::DbView, _: Id, _: Self::Input<'db>) -> Self::Output<'db> {
        unimplemented!()
    }

    fn recover_from_cycle<'db>(
        _: &'db Self::DbView,
        _: &crate::Cycle,
        _: &Self::Output<'db>,
        value: Self::Output<'db>,
        _: Self::Input<'db>,
    ) -> Self::Output<'db> {
        value
    }

    fn serialize<S>(_: &Self::Output<'_>, _: S) -> Result<S::Ok, S::Error>
    where
        S: plumbing::serde::Serializer,
    {
        unimplemented!()
    }

    fn deserialize<'de, D>(_: D) -> Result<Self::Output<'static>, D::Error>
    where
        D: plumbing::serde::Deserializer<'de>,
    {
        unimplemented!()
    }
}

/// Which origin a memo header is given.
#[derive(Copy, Clone, PartialEq, Eq)]
pub(crate) enum OriginShape {
    /// `Derived` with no edges
    Derived,
    /// `DerivedUntracked` with no edges
    Untracked,
    /// `Assigned` by query (1, 0)
    Assigned,
}

pub(crate) fn any_origin_shape() -> OriginShape {
    let s: u8 = kani::any();
    kani::assume(s < 3);
    match s {
        0 => OriginShape::Derived,
        1 => OriginShape::Untracked,
        _ => OriginShape::Assigned,
    }
}

pub(crate) fn origin_of(shape: OriginShape) -> OriginAndExtra {
    match shape {
        OriginShape::Derived => OriginAndExtra::derived(std::iter::empty(), QueryRevisionsExtra::default()),
        OriginShape::Untracked => OriginAndExtra::derived_untracked(std::iter::empty(), QueryRevisionsExtra::default()),
        OriginShape::Assigned => OriginAndExtra::assigned(key(1, 0, 0)),
    }
}

pub(crate) fn revisions_of(changed_at: usize, durability: Durability, origin: OriginAndExtra, verified_final: bool) -> QueryRevisions {
    QueryRevisions {
        changed_at: Revision::from(changed_at),
        durability,
        origin_and_extra: origin,
        #[cfg(feature = "accumulator")]
        accumulated_inputs: Default::default(),
        verified_final: crate::sync::atomic::AtomicBool::new(verified_final),
    }
}

pub(crate) fn header_of(verified_at: usize, revisions: QueryRevisions) -> MemoHeader {
    MemoHeader {
        verified_at: AtomicRevision::from(Revision::from(verified_at)),
        revisions,
    }
}
