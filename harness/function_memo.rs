// Kani harnesses for /repo/src/function/memo.rs (compiled as `crate::function::memo::verif`).
// Properties: C04-O4 / C05 (evictability predicate), C03.

use crate::verif_prelude::*;
use crate::function::verif::*;
use crate::Durability;

// @verif prop=C04,C05 obl=O4 tier=quick bounds="all three origin kinds; any durability; final or provisional"
// @+ encodes="MemoHeader::can_evict_value, MemoHeader::origin"
/// C04-O4/C05: only values computed from fully tracked dependencies are evictable: never an untracked memo
/// (its value cannot be reconstructed) nor an assigned (specified) one.
#[kani::proof]
#[kani::unwind(4)]
#[kani::stub(real_catch_unwind, stub_catch_unwind)]
fn c04_o4_can_evict_only_fully_tracked() {
    let shape = any_origin_shape();
    let header = header_of(1, revisions_of(1, any_durability(), origin_of(shape), kani::any()));
    let can = header.can_evict_value();
    assert!(can == (shape == OriginShape::Derived), "C04/C05: evictability differs from 'computed from fully tracked dependencies'");
    kani::cover!(shape == OriginShape::Untracked);
    kani::cover!(shape == OriginShape::Assigned);
    kani::cover!(can);
    std::mem::forget(header);
}
