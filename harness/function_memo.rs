// Kani harnesses for /repo/src/function/memo.rs (compiled as `crate::function::memo::verif`).
// Properties: C04-O4 / C05 (evictability predicate), C03.

use crate::verif_prelude::*;
use crate::function::verif::*;
use crate::Durability;

// @verif prop=C04,C05 obl=O4 tier=quick bounds="all three origin kinds; any durability; final or provisional"
// @+ encodes="MemoHeader::can_evict_value, MemoHeader::origin"
/// C04-O4/C05: only values computed from fully tracked dependencies are evictable: never an untracked memo
/// (its value cannot be reconstructed) nor an assigned (specified) one.
#[kani::proof]
#[kani::unwind(4)]
#[kani::stub(real_catch_unwind, stub_catch_unwind)]
fn c04_o4_can_evict_only_fully_tracked() {
    let shape = any_origin_shape();
    let header = header_of(1, revisions_of(1, any_durability(), origin_of(shape), kani::any()));
    let can = header.can_evict_value();
    assert!(can == (shape == OriginShape::Derived), "C04/C05: evictability differs from 'computed from fully tracked dependencies'");
    kani::cover!(shape == OriginShape::Untracked);
    kani::cover!(shape == OriginShape::Assigned);
    kani::cover!(shape == OriginShape::Derived);
    std::mem::forget(header);
}

// @verif prop=C05,C04 obl=O3 tier=quick bounds="one memo of VFn (u32 output) in a one-slot memo table; all three origin kinds; symbolic value, verified_at, changed_at, durability"
// @+ encodes="IngredientImpl::<VFn>::evict_value_from_memo_for, MemoTableWithTypesMut::map_memo, MemoHeader::can_evict_value, MemoTableWithTypes::insert, MemoTableWithTypes::get"
/// C05-O3: evicting a memo discards only the value of a fully tracked memo; its dependency information (verified_at,
/// changed_at, durability, origin) is kept, so it can be re-validated and recomputed on demand; untracked and
/// assigned memos keep their value (it could not be reconstructed).
#[kani::proof]
#[kani::unwind(4)]
#[kani::stub(real_catch_unwind, stub_catch_unwind)]
fn c05_o3_evict_keeps_dependency_info() {
    use crate::table::memo::{MemoEntryType, MemoTable, MemoTableTypes};
    let mut types = MemoTableTypes::default();
    let idx = MemoIngredientIndex::from_usize(0);
    types.set(idx, MemoEntryType::of::<Memo<VFn>>());
    // SAFETY: the table is only accessed with `types`.
    let mut table = unsafe { MemoTable::new(&types) };
    let shape = any_origin_shape();
    let v: u32 = kani::any();
    let verified: usize = kani::any();
    let changed: usize = kani::any();
    kani::assume(1 <= changed && changed <= verified && verified < REV_MAX);
    let d = any_durability();
    let memo = Memo::<VFn> {
        header: header_of(verified, revisions_of(changed, d, origin_of(shape), true)),
        value: Some(v),
    };
    let ptr = NonNull::from(Box::leak(Box::new(memo)));
    // SAFETY: `types` is the table's types table.
    assert!(unsafe { types.attach_memos(&table) }.insert(idx, ptr).is_none());
    // SAFETY: as above; no shared references into the memo are live.
    IngredientImpl::<VFn>::evict_value_from_memo_for(unsafe { types.attach_memos_mut(&mut table) }, idx);
    // SAFETY: as above.
    let got = unsafe { types.attach_memos(&table) }.get::<Memo<VFn>>(idx);
    assert!(got == Some(ptr), "C05: eviction removed or replaced the memo (dependency information lost)");
    // SAFETY: the memo is live.
    let m = unsafe { ptr.as_ref() };
    if shape == OriginShape::Derived {
        assert!(m.value.is_none(), "C05: eviction left the value of a fully tracked memo in place");
    } else {
        assert!(m.value == Some(v), "C05/C04: eviction discarded a value that cannot be recomputed (untracked or specified)");
    }
    assert!(m.header.verified_at.load().as_usize() == verified, "C05: eviction changed verified_at");
    assert!(m.header.revisions.changed_at.as_usize() == changed, "C05: eviction changed changed_at");
    assert!(m.header.revisions.durability == d, "C05: eviction changed the durability");
    match (shape, m.header.origin()) {
        (OriginShape::Derived, QueryOriginRef::Derived(_)) => {}
        (OriginShape::Untracked, QueryOriginRef::DerivedUntracked(_)) => {}
        (OriginShape::Assigned, QueryOriginRef::Assigned(_)) => {}
        _ => panic!("C05: eviction changed the origin"),
    }
    kani::cover!(shape == OriginShape::Derived);
    kani::cover!(shape == OriginShape::Untracked);
    std::mem::forget(table);
}
