#![cfg(all(feature = "inventory", not(feature = "shuttle")))]
#![allow(non_snake_case)]

//! Demonstration for seeded defect C20c.
//!
//! `outer` and `inner` form a nested fixpoint cycle (`inner` is a cycle head for itself and a
//! participant of `outer`'s cycle). A reader is cancelled by a pending write that does NOT advance
//! the revision (`trigger_cancellation`) after `inner` has stored a provisional result but before
//! `outer` has finished its first iteration. When the computation is retried afterwards, the
//! provisional result of `inner` that was abandoned by the cancellation must not be handed out
//! again: the retry has to start from the cycle initial value, so that its result equals the
//! result of a from-scratch evaluation on a fresh database.

use std::sync::atomic::{AtomicUsize, Ordering};
use std::sync::{Arc, Condvar, Mutex};

use salsa::{Cancelled, Database, Storage};

#[derive(Default)]
struct Signal {
    value: Mutex<usize>,
    cond_var: Condvar,
}

impl Signal {
    fn signal(&self, stage: usize) {
        if stage > 0 {
            let mut v = self.value.lock().unwrap();
            if stage > *v {
                *v = stage;
                self.cond_var.notify_all();
            }
        }
    }

    fn wait_for(&self, stage: usize) {
        let mut v = self.value.lock().unwrap();
        while *v < stage {
            v = self.cond_var.wait(v).unwrap();
        }
    }
}

#[salsa::db]
trait KnobsDatabase: Database {
    fn signal(&self, stage: usize);
    fn wait_for(&self, stage: usize);
    /// Record a value that `inner` observed for its own provisional result.
    fn observe(&self, value: u32);
}

#[salsa::db]
struct Knobs {
    storage: Storage<Self>,
    signal: Arc<Signal>,
    signal_on_did_cancel: Arc<AtomicUsize>,
    observed: Arc<Mutex<Vec<u32>>>,
}

impl Clone for Knobs {
    fn clone(&self) -> Self {
        Self {
            storage: self.storage.clone(),
            signal: self.signal.clone(),
            signal_on_did_cancel: self.signal_on_did_cancel.clone(),
            observed: self.observed.clone(),
        }
    }
}

impl Default for Knobs {
    fn default() -> Self {
        let signal = <Arc<Signal>>::default();
        let signal_on_did_cancel = Arc::new(AtomicUsize::new(0));
        Self {
            storage: Storage::new(Some(Box::new({
                let signal = signal.clone();
                let signal_on_did_cancel = signal_on_did_cancel.clone();
                move |event| {
                    if let salsa::EventKind::DidSetCancellationFlag = event.kind {
                        signal.signal(signal_on_did_cancel.load(Ordering::Acquire));
                    }
                }
            }))),
            signal,
            signal_on_did_cancel,
            observed: Default::default(),
        }
    }
}

#[salsa::db]
impl Database for Knobs {}

#[salsa::db]
impl KnobsDatabase for Knobs {
    fn signal(&self, stage: usize) {
        self.signal.signal(stage);
    }
    fn wait_for(&self, stage: usize) {
        self.signal.wait_for(stage);
    }
    fn observe(&self, value: u32) {
        self.observed.lock().unwrap().push(value);
    }
}

#[salsa::input]
struct Input {
    #[returns(copy)]
    value: u32,
}

#[salsa::tracked(returns(copy), cycle_fn = cycle_fn, cycle_initial = cycle_initial)]
fn outer(db: &dyn KnobsDatabase, input: Input) -> u32 {
    let i = inner(db, input);

    // First execution only: let the writer request its write now, and continue once the
    // cancellation flag is set. (Stages only ever increase, so this is a no-op on retries.)
    db.signal(1);
    db.wait_for(2);
    cancellation_point(db, input);

    i
}

#[salsa::tracked(returns(copy), cycle_fn = cycle_fn, cycle_initial = cycle_initial)]
fn inner(db: &dyn KnobsDatabase, input: Input) -> u32 {
    let o = outer(db, input);
    let i = inner(db, input);
    db.observe(i);

    // A pure, deterministic function of (own previous value, outer's value, input). Starting from
    // the cycle initial values (0, 0) the pair (i == 1, o == 0) is never seen, so a from-scratch
    // evaluation converges to `input.value`.
    if i == 1 && o == 0 {
        100
    } else if i >= 100 {
        i
    } else {
        i.saturating_add(1).min(input.value(db))
    }
}

#[salsa::tracked]
fn cancellation_point(db: &dyn KnobsDatabase, input: Input) {
    input.value(db);
}

fn cycle_initial(_db: &dyn KnobsDatabase, _id: salsa::Id, _input: Input) -> u32 {
    0
}

fn cycle_fn(
    _db: &dyn KnobsDatabase,
    _cycle: &salsa::Cycle,
    _last_provisional_value: &u32,
    value: u32,
    _input: Input,
) -> u32 {
    value
}

/// Result and observation log of an undisturbed evaluation on a fresh database.
fn from_scratch() -> (u32, Vec<u32>) {
    let db = Knobs::default();
    // Nobody cancels: make the rendezvous in `outer` a no-op.
    db.signal(2);
    let input = Input::new(&db, 3);
    let result = outer(&db, input);
    let log = db.observed.lock().unwrap().clone();
    (result, log)
}

#[test]
fn seeded_C20c_abandoned_inner_provisional_is_not_reused() {
    let (expected, expected_log) = from_scratch();
    assert_eq!(expected, 3);

    let db = Knobs::default();
    let db_writer = db.clone();
    let db_t1 = db.clone();
    let db_waiter = db.clone();
    let input = Input::new(&db, 3);
    let observed = db.observed.clone();

    db.signal_on_did_cancel.store(2, Ordering::Release);
    drop(db);

    let t1 = std::thread::spawn(move || Cancelled::catch(|| outer(&db_t1, input)));

    db_waiter.wait_for(1);
    drop(db_waiter);

    let t2 = std::thread::spawn({
        let mut db_writer = db_writer;
        move || {
            // A write request that cancels the readers but does not advance the revision.
            db_writer.trigger_cancellation();
            db_writer
        }
    });

    assert!(matches!(t1.join().unwrap(), Err(Cancelled::PendingWrite)));
    let db_after = t2.join().unwrap();

    // Forget what the cancelled attempt observed.
    observed.lock().unwrap().clear();

    let actual = outer(&db_after, input);
    let actual_log = observed.lock().unwrap().clone();

    assert_eq!(
        actual_log, expected_log,
        "the retry after the cancellation must observe the same provisional values of `inner` \
         as a from-scratch evaluation (it must restart from the cycle initial value)"
    );
    assert_eq!(
        actual, expected,
        "result after the write differs from a from-scratch evaluation"
    );
}
