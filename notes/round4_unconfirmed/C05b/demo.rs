#![cfg(feature = "inventory")]

//! LRU eviction must be transparent: a result computed from untracked
//! dependencies cannot be reconstructed, so an explicit eviction request in
//! the middle of a revision must not discard it. Within one revision a query
//! has to keep returning the same value, exactly as with unbounded caching.

use std::sync::atomic::{AtomicU32, Ordering};

mod common;
use common::LogDatabase;

use salsa::Database as _;

/// External state that salsa knows nothing about.
static CLOCK: AtomicU32 = AtomicU32::new(0);

#[salsa::input]
struct MyInput {
    #[returns(copy)]
    field: u32,
}

#[salsa::tracked(returns(copy), lru = 2)]
fn sample_clock(db: &dyn LogDatabase, input: MyInput) -> u32 {
    db.push_log(format!("sample_clock({})", input.field(db)));
    db.report_untracked_read();
    input.field(db) * 1000 + CLOCK.load(Ordering::SeqCst)
}

#[salsa::tracked(returns(copy), lru = 2)]
fn sample_clock_unbounded_twin(db: &dyn LogDatabase, input: MyInput) -> u32 {
    db.report_untracked_read();
    input.field(db) * 1000 + CLOCK.load(Ordering::SeqCst)
}

#[test]
fn explicit_eviction_is_transparent_for_untracked_results() {
    let mut db = common::LoggerDatabase::default();
    // The twin has eviction disabled: it is the "unbounded caching" reference.
    sample_clock_unbounded_twin::set_lru_capacity(&mut db, 0);

    let inputs: Vec<MyInput> = (0..5).map(|i| MyInput::new(&db, i)).collect();

    CLOCK.store(1, Ordering::SeqCst);
    let first: Vec<u32> = inputs.iter().map(|&i| sample_clock(&db, i)).collect();
    let first_ref: Vec<u32> = inputs
        .iter()
        .map(|&i| sample_clock_unbounded_twin(&db, i))
        .collect();
    assert_eq!(first, first_ref);
    db.assert_logs_len(5);

    // The outside world moves on, but no new revision is started.
    CLOCK.store(2, Ordering::SeqCst);

    // An explicit eviction request does not start a new revision.
    db.trigger_lru_eviction();

    // Still the same revision: every request must observe the same result as
    // before, and nothing may be re-executed.
    let second: Vec<u32> = inputs.iter().map(|&i| sample_clock(&db, i)).collect();
    let second_ref: Vec<u32> = inputs
        .iter()
        .map(|&i| sample_clock_unbounded_twin(&db, i))
        .collect();
    assert_eq!(second_ref, first_ref);
    assert_eq!(
        second, second_ref,
        "lru-bounded query diverged from the unbounded reference within one revision"
    );
    db.assert_logs_len(0);
}
