#![cfg(feature = "inventory")]

//! Demonstration for seeded defect C09c.
//!
//! An interned value that is shared by two memoized functions must stay alive when the function
//! that was verified *earlier* is revalidated, even if the other function interned the value in a
//! later (but by now stale) revision.

use salsa::plumbing::AsId;
use salsa::{Database, Setter};

#[salsa::input]
struct Input {
    #[returns(copy)]
    field1: usize,
}

// Use a consistent hash value so that all values share one shard (and thus one LRU list).
#[derive(PartialEq, Eq, PartialOrd, Ord, Debug, Clone, salsa::SalsaValue)]
struct BadHash(usize);

impl std::hash::Hash for BadHash {
    fn hash<H: std::hash::Hasher>(&self, state: &mut H) {
        state.write_i16(0);
    }
}

#[salsa::interned(revisions = 3)]
#[derive(Debug)]
struct Interned3<'db> {
    field1: BadHash,
}

#[salsa::interned(revisions = 1)]
#[derive(Debug)]
struct Interned1<'db> {
    field1: BadHash,
}

#[salsa::tracked(returns(copy))]
fn make3(db: &dyn Database, input: Input) -> Interned3<'_> {
    Interned3::new(db, BadHash(input.field1(db)))
}

#[salsa::tracked(returns(copy))]
fn make1(db: &dyn Database, input: Input) -> Interned1<'_> {
    Interned1::new(db, BadHash(input.field1(db)))
}

#[test]
fn revalidated_value_is_not_reclaimed_revisions_3() {
    let mut db = salsa::DatabaseImpl::default();

    let a = Input::new(&db, 7);
    let b = Input::new(&db, 7);
    let filler = Input::new(&db, 100);
    let fresh = Input::new(&db, 1000);

    // R1: `make3(a)` interns V = Interned3(7).
    let v = make3(&db, a);
    let v_id = v.as_id();
    assert_eq!(v.field1(&db).0, 7);

    // R2: `make3(b)` interns the same data again, V is now last interned in R2.
    filler.set_field1(&mut db).to(101);
    assert_eq!(make3(&db, b).as_id(), v_id);

    // R3, R4: the interned type is used, but V is neither interned nor revalidated.
    for i in [102, 103] {
        filler.set_field1(&mut db).to(i);
        assert_eq!(make3(&db, filler).field1(&db).0, i);
    }

    // R5: revalidate `make3(a)`. Its only dependencies are `a.field1` and V, neither of which
    // changed, so the memo is reused and V has to be kept alive for this revision.
    filler.set_field1(&mut db).to(104);
    let v = make3(&db, a);
    assert_eq!(v.as_id(), v_id);

    // Still R5: intern a brand new value. It must not take over the slot of V.
    let w = make3(&db, fresh);
    assert_eq!(w.field1(&db).0, 1000);
    assert_ne!(
        w.as_id().index(),
        v_id.index(),
        "slot of a value revalidated in the current revision was reclaimed"
    );

    // `v` was handed out in this very revision, so it must still denote the same data.
    assert_eq!(v.field1(&db).0, 7);
    assert_eq!(make3(&db, a).as_id(), v_id);
}

#[test]
fn revalidated_value_is_not_reclaimed_revisions_1() {
    let mut db = salsa::DatabaseImpl::default();

    let a = Input::new(&db, 7);
    let b = Input::new(&db, 7);
    let bump = Input::new(&db, 0);
    let fresh = Input::new(&db, 1000);

    // R1: `make1(a)` interns V.
    let v_id = make1(&db, a).as_id();

    // R2: `make1(b)` re-interns V.
    bump.set_field1(&mut db).to(1);
    assert_eq!(make1(&db, b).as_id(), v_id);

    // R3: revalidate `make1(a)` (verified in R1, i.e. before V was last interned).
    bump.set_field1(&mut db).to(2);
    let v = make1(&db, a);
    assert_eq!(v.as_id(), v_id);

    // Still R3: a new value must not reuse V's slot.
    let w = make1(&db, fresh);
    assert_ne!(w.as_id().index(), v_id.index());
    assert_eq!(v.field1(&db).0, 7);
}
