#![cfg(feature = "inventory")]

//! Seeded-defect demonstration for property C07 (reclaimed identities never alias
//! memoized state or field data).
//!
//! A tracked struct with TWO identity (untracked) fields whose hashes collide is
//! re-created with both identity fields changed. Salsa reuses the slot in place,
//! clears its memos and bumps the id generation ("as if we had allocated a new
//! slot"). The new generation must expose the *new* values of every identity
//! field; none of the old value's field data may be returned for the new id.

use salsa::{Database as Db, Setter};

#[salsa::input]
struct MyInput {
    #[returns(copy)]
    field: u64,
}

/// Hash is constant, so every value of the identity tuple collides and the
/// tracked struct slot is reused in place with a new generation.
#[derive(PartialEq, Eq, Debug, Clone, salsa::SalsaValue)]
struct BadHash(u64);

impl std::hash::Hash for BadHash {
    fn hash<H: std::hash::Hasher>(&self, state: &mut H) {
        state.write_i16(0);
    }
}

#[salsa::tracked]
struct MyTracked<'db> {
    first: BadHash,
    second: BadHash,
}

#[salsa::tracked(returns(copy))]
fn create_tracked(db: &dyn Db, input: MyInput) -> MyTracked<'_> {
    let n = input.field(db);
    MyTracked::new(db, BadHash(n), BadHash(n * 10))
}

#[salsa::tracked(returns(copy))]
fn sum_fields<'db>(db: &'db dyn Db, tracked: MyTracked<'db>) -> u64 {
    tracked.first(db).0 + tracked.second(db).0
}

#[test]
fn reused_slot_exposes_only_new_identity_fields() {
    let mut db = salsa::DatabaseImpl::new();

    let input = MyInput::new(&db, 1);
    let old = create_tracked(&db, input);
    let old_id = salsa::plumbing::AsId::as_id(&old);
    assert_eq!(old.first(&db).0, 1);
    assert_eq!(old.second(&db).0, 10);
    assert_eq!(sum_fields(&db, old), 11);

    // Both identity fields change, the identity hash collides: the slot is
    // reclaimed in place for a new value with a new generation.
    input.set_field(&mut db).to(2);
    let new = create_tracked(&db, input);
    let new_id = salsa::plumbing::AsId::as_id(&new);
    assert_eq!(new_id.index(), old_id.index(), "slot should be reused");
    assert_ne!(new_id, old_id, "reused slot must get a new generation");

    // No field data of the old value may be visible through the new id.
    assert_eq!(new.first(&db).0, 2);
    assert_eq!(new.second(&db).0, 20, "stale identity field of the old value leaked");
    assert_eq!(sum_fields(&db, new), 22);

    // And once more, to check the history keeps going.
    input.set_field(&mut db).to(3);
    let newer = create_tracked(&db, input);
    assert_eq!(newer.first(&db).0, 3);
    assert_eq!(newer.second(&db).0, 30);
    assert_eq!(sum_fields(&db, newer), 33);
}
